#!/bin/sh
# MANIFEST.setup_cmd: build the framework from files on disk only (offline).
set -e
cd "$(dirname "$0")"
mkdir -p build evidence
javac -cp /opt/veriftools/tla/tla2tools.jar -d build java/tlc2/module/*.java
if [ -f shim/build.sh ]; then sh shim/build.sh; fi
echo "setup ok"
