"""Persistent argument arrays.  A driver that hands every call fresh copies can never expose state that an implementation keys on
the IDENTITY of its arguments (a last-call memo `if x is self._last_x`, id()-keyed caches): callers that step a working array in
place (`z += dz`) do exactly that.  Reuse()(name, values) returns the same array object for equal (name, shape, dtype), refilled."""
import numpy as np


class Reuse:
    def __init__(self):
        self._bufs = {}

    def __call__(self, name, values):
        arr = np.ascontiguousarray(values)
        key = (name, arr.shape, arr.dtype.str)
        b = self._bufs.get(key)
        if b is None:
            b = self._bufs[key] = np.empty_like(arr)
        b[...] = arr
        return b
