"""Adapters that expose every vectorised stage as  call(indices into an event pool) -> per-position outputs,
for the history replay of C11 (and reused by other drivers)."""
import hashlib
import warnings

import numpy as np

from . import use_repo, rng as rngmod, plots
from .pipeline import make_config, quiet_progress

warnings.simplefilter("ignore")


def _rowbytes(arrs, j):
    out = []
    for a in arrs:
        a = np.asarray(a)
        out.append(np.ascontiguousarray(a[j]).tobytes())
    return b"|".join(out)


def _expand(mask, arr, fill=np.nan):
    """place a compressed array back at the True positions of mask"""
    arr = np.asarray(arr)
    if arr.ndim == 0 or arr.shape[0] != int(np.count_nonzero(mask)):
        # numpy would broadcast a length-1 array silently: a stage returning the wrong number of entries must not look consistent
        raise ValueError(f"stage returned {arr.shape} entries for {int(np.count_nonzero(mask))} selected events")
    out = np.full(mask.shape + arr.shape[1:], fill, dtype=float)
    out[mask] = arr
    return out


def _intact(before, after):
    return all(np.array_equal(np.asarray(b), np.asarray(a), equal_nan=True) and np.asarray(b).dtype == np.asarray(a).dtype
               for b, a in zip(before, after))


class Stage:
    name = "?"
    cost = 1          # relative cost per event (limits history counts)

    def __init__(self, seed=0, pool_size=48):
        use_repo()
        self.rng = np.random.default_rng(seed)
        self.n = pool_size
        self._bufs = {}
        self.setup()

    def buf(self, name, arr):
        """the batch in a PERSISTENT argument array: calls with batches of equal length hand the stage the very same array objects
        with new contents (a stepping loop's `x += dx`), so that anything remembered by argument identity is exposed"""
        arr = np.ascontiguousarray(arr)
        key = (name, arr.shape, arr.dtype.str)
        b = self._bufs.get(key)
        if b is None:
            b = self._bufs[key] = np.empty_like(arr)
        b[...] = arr
        return b

    def digest_outputs(self, arrs, n):
        return [hashlib.sha1(_rowbytes(arrs, j)).digest()[:8] for j in range(n)]

    plots = False     # True: the stage is decorated with plot functions; call(idx, plot=True) requests all of them

    def call(self, idx):
        """-> (list of per-position digests, inputs_intact)"""
        raise NotImplementedError


class GeomThrow(Stage):
    name = "RegionGeom.throw"

    def setup(self):
        from nuspacesim.simulation.geometry.region_geometry import RegionGeom
        self.obj = RegionGeom(make_config({"mode": "Diffuse"}))
        u = self.rng.random((4, self.n))
        u[:, 0] = [0.5, 0.5, 0.5, 1e-9]
        u[:, 1] = [1.0, 0.0, 1.0, 0.5]
        u[:, 2] = [0.0, 1.0, 0.0, 0.999999]
        self.u = u

    def call(self, idx):
        u = self.buf("u", self.u[:, idx])
        keep = u.copy()
        g = self.obj
        g.throw(u)
        # per-throw arrays of the object: internal names, so whichever of them this version of the class has
        arrs = [getattr(g, a) for a in ("thetaTrSubV", "costhetaTrSubV", "phiTrSubV", "phiS", "losPathLen", "thetaS", "costhetaNSubV",
                                        "costhetaTrSubN", "betaTrSubN", "latS", "longS", "elevAngVSubN", "aziAngVSubN")
                if isinstance(getattr(g, a, None), np.ndarray) and np.shape(getattr(g, a))[:1] == (len(idx),)]
        arrs.append(g.event_mask)
        m = np.asarray(g.event_mask)
        arrs += [_expand(m, g.beta_rad()), _expand(m, g.thetas()), _expand(m, g.pathLens())]
        s = np.full(int(m.sum()), 25.0)
        s0 = s.copy()
        la, lo = g.find_lat_long_along_traj(s)
        arrs += [_expand(m, la), _expand(m, lo)]
        return self.digest_outputs(arrs, len(idx)), _intact([keep, s0], [u, s])


class GeomCall(GeomThrow):
    name = "RegionGeom.__call__"
    plots = True

    def call(self, idx, plot=False):
        u = self.buf("u", self.u[:, idx])
        keep = u.copy()
        b, t, p = plots.call(self.obj, u, plot=plot)
        m = np.asarray(self.obj.event_mask)
        return self.digest_outputs([m, _expand(m, b), _expand(m, t), _expand(m, p)], len(idx)), _intact([keep], [u])


class TooThrow(Stage):
    name = "RegionGeomToO.throw"
    cost = 3

    def setup(self):
        from nuspacesim.simulation.geometry.region_geometry import RegionGeomToO
        self.obj = RegionGeomToO(make_config({"mode": "Target"}))
        self.t = np.sort(self.rng.random(self.n))

    def call(self, idx):
        t = self.buf("t", self.t[idx])
        keep = t.copy()
        g = self.obj
        g.throw(t)
        h = np.asarray(g.horizon_mask)
        v = np.zeros_like(h)
        v[h] = np.asarray(g.volume_mask)
        arrs = [np.asarray(g.sourceNadRad), np.asarray(g.alt_deg), np.asarray(g.az_deg), h, v,
                _expand(h, g.sourcebeta), _expand(v, g.pathLens()), _expand(v, g.beta_rad()), _expand(v, g.thetas()),
                np.asarray(g.times.jd1), np.asarray(g.times.jd2)]
        return self.digest_outputs(arrs, len(idx)), _intact([keep], [t])


class TooCall(TooThrow):
    name = "RegionGeomToO.__call__"
    plots = True

    def call(self, idx, plot=False):
        t = self.buf("t", self.t[idx])
        keep = t.copy()
        b, th, p, tm = plots.call(self.obj, t, plot=plot)
        h = np.asarray(self.obj.horizon_mask)
        v = np.zeros_like(h)
        v[h] = np.asarray(self.obj.volume_mask)
        arrs = [v, _expand(v, b), _expand(v, th), _expand(v, p), _expand(v, tm.jd1), _expand(v, tm.jd2)]
        return self.digest_outputs(arrs, len(idx)), _intact([keep], [t])


class SpectraStage(Stage):
    name = "Spectra.__call__"
    plots = True

    def setup(self):
        from nuspacesim.simulation.spectra.spectra import Spectra
        self.obj = Spectra(make_config({"spectrum": "power", "index": 2.2, "lo": 6.5, "hi": 11.0}))
        self.u = self.rng.random(self.n)

    def call(self, idx, plot=False):
        with rngmod.constant(0.37):
            e, a, b = plots.call(self.obj, len(idx), plot=plot)
        n = len(idx)
        return self.digest_outputs([e, np.full(n, a), np.full(n, b)], n), True


def _tau_pool(self):
    from nuspacesim.simulation.taus.taus import Taus
    cfg = make_config({})
    if getattr(self, "table_version", None):
        cfg.simulation.tau_shower.table_version = str(self.table_version)
    self.obj = Taus(cfg)
    n = self.n
    self.beta = np.radians(self.rng.uniform(1.0, 42.0, n))
    self.beta[0] = 0.0
    self.beta[1] = np.radians(0.5)
    self.beta[2] = np.radians(44.0)
    self.beta[3] = np.radians(89.0)
    self.beta[4] = float(self.obj.tau_cdf_grid["beta_rad"][0])
    self.beta[5] = float(self.obj.tau_cdf_grid["beta_rad"][-1])
    # several events BELOW the tabulated minimum angle (evaluated on the minimum-angle edge), each with its own energy
    self.beta[8:14] = np.radians(self.rng.uniform(0.001, 0.09, 6))
    self.le = self.rng.uniform(6.0, 12.0, n)
    self.le[6] = 6.0
    self.le[7] = 12.0
    self.u = self.rng.uniform(0.02, 0.98, n)
    # members of (0, 1) with special bit patterns: the smallest positive double, the largest below 1 (u = 0 exactly is outside the
    # samplers' domain - C04 / C18 quantify over u strictly inside the row's CDF range - and the pinned tree rejects such a batch with
    # a ValueError, which is not an impurity)
    self.u[15] = 5e-324
    self.u[16] = np.nextafter(1.0, 0.0)


class TauEnergy(Stage):
    name = "Taus.tau_energy"
    setup = _tau_pool

    def call(self, idx):
        b, le, u = self.buf("beta", self.beta[idx]), self.buf("le", self.le[idx]), self.buf("u", self.u[idx])
        keep = [b.copy(), le.copy(), u.copy()]
        e = self.obj.tau_energy(b, le, u)
        return self.digest_outputs([e], len(idx)), _intact(keep, [b, le, u])


class TauExit(Stage):
    name = "Taus.tau_exit_prob"
    setup = _tau_pool

    def call(self, idx):
        b, le = self.buf("beta", self.beta[idx]), self.buf("le", self.le[idx])
        keep = [b.copy(), le.copy()]
        p = self.obj.tau_exit_prob(b, le)
        return self.digest_outputs([p], len(idx)), _intact(keep, [b, le])


class TauExitV1(TauExit):
    """table version 1: the only shipped exit-probability table with non-positive cells (floored on use): the FIRST call on an object
    must answer like every later one"""
    name = "Taus.tau_exit_prob[table 1]"
    table_version = 1

    def setup(self):
        _tau_pool(self)
        # events next to the empty cells: high energy, large angle
        k = self.n // 2
        self.le[8:8 + k] = self.rng.uniform(8.6, 12.0, k)
        self.beta[8:8 + k] = np.radians(self.rng.uniform(15.0, 41.9, k))


class TausCall(Stage):
    name = "Taus.__call__"
    plots = True
    setup = _tau_pool

    def call(self, idx, plot=False):
        b, le = self.buf("beta", self.beta[idx]), self.buf("le", self.le[idx])
        keep = [b.copy(), le.copy()]
        with rngmod.constant(0.37):
            outs = plots.call(self.obj, b, le, plot=plot)
        return self.digest_outputs(list(outs), len(idx)), _intact(keep, [b, le])


class TauInterleaved(Stage):
    """alternates the three entry points on ONE Taus object (history independence of C05 as well)"""
    name = "Taus.interleaved"
    setup = _tau_pool

    def call(self, idx):
        b, le, u = self.buf("beta", self.beta[idx]), self.buf("le", self.le[idx]), self.buf("u", self.u[idx])
        keep = [b.copy(), le.copy(), u.copy()]
        p1 = self.obj.tau_exit_prob(b, le)
        e = self.obj.tau_energy(b, le, u)
        with rngmod.constant(0.37):
            outs = self.obj(b, le)
        p2 = self.obj.tau_exit_prob(b, le)
        return self.digest_outputs([p1, e, p2] + list(outs), len(idx)), _intact(keep, [b, le, u])


class CdfSampler(Stage):
    name = "grid_cdf_sampler"
    setup = _tau_pool

    def call(self, idx):
        from nuspacesim.utils.cdf import grid_cdf_sampler
        g = self.obj.tau_cdf_grid
        b = np.clip(self.beta[idx], g["beta_rad"][0], g["beta_rad"][-1])
        le, u = self.buf("le", self.le[idx]), self.buf("u", self.u[idx])
        keep = [b.copy(), le.copy(), u.copy()]
        z = grid_cdf_sampler(g)(le, b, u)
        return self.digest_outputs([z], len(idx)), _intact(keep, [b, le, u])


class Vec1dInterp(Stage):
    name = "vec_1d_interp"

    def setup(self):
        n = self.n
        rows = np.sort(self.rng.random((n, 9)), axis=1)
        rows[:, 0] = 0.0
        rows[:, -1] = 1.0
        rows[::3, 3] = rows[::3, 4]            # plateaus
        self.rows = rows
        self.ys = np.linspace(-4.0, 0.0, 9)
        self.x = self.rng.uniform(0.01, 0.99, n)

    def call(self, idx):
        from nuspacesim.utils.interp import vec_1d_interp
        r, x = self.buf("rows", self.rows[idx]), self.buf("x", self.x[idx])
        ys = self.ys.copy()
        keep = [r.copy(), x.copy(), ys.copy()]
        y = vec_1d_interp(r, ys, x)
        return self.digest_outputs([y], len(idx)), _intact(keep, [r, x, ys])


def _shower_pool(self):
    n = self.n
    self.beta = np.radians(self.rng.uniform(1.0, 42.0, n))
    self.gamma = 10.0 ** self.rng.uniform(5.0, 9.0, n)
    self.tbeta = np.sqrt(1.0 - 1.0 / self.gamma ** 2)
    self.u = self.rng.uniform(0.01, 1.0, n)
    # exactly zero (a member of the generator's range [0, 1): infinite decay length), the smallest positive double, the largest below 1
    self.u[9] = 0.0
    self.u[10] = 5e-324
    self.u[11] = np.nextafter(1.0, 0.0)
    self.alt = self.rng.uniform(-1.0, 24.0, n)
    self.alt[0] = 0.0
    self.alt[1] = 20.0
    self.alt[2] = 10.0
    self.alt[3] = 20.000001
    self.len = self.alt / np.sin(self.beta) + 1.0
    self.E = 10.0 ** self.rng.uniform(-3.0, 1.5, n)
    self.lat = self.rng.uniform(-1.5, 1.5, n)
    self.lon = self.rng.uniform(-3.1, 3.1, n)
    self.theta = self.rng.uniform(1.15, 1.17, n)
    self.path = self.rng.uniform(1500.0, 2600.0, n)


class AltDec(Stage):
    name = "EAS.altDec"

    def setup(self):
        from nuspacesim.simulation.eas_optical.eas import EAS
        self.obj = EAS(make_config({}))
        _shower_pool(self)

    def call(self, idx):
        a = [self.buf("beta", self.beta[idx]), self.buf("tbeta", self.tbeta[idx]), self.buf("gamma", self.gamma[idx]), self.buf("u", self.u[idx])]
        keep = [x.copy() for x in a]
        alt, ln = self.obj.altDec(*a)
        with rngmod.constant(0.37):
            alt2, ln2 = self.obj.altDec(a[0], a[1], a[2])
        return self.digest_outputs([alt, ln, alt2, ln2], len(idx)), _intact(keep, a)


def _site_cloud(lat, long):
    """a cloud top that depends on the event's site (as the pressure-map model does): each event must be judged with its own"""
    return np.float32(0.5 + 6.0 * abs(np.sin(37.0 * float(lat) + 11.0 * float(long))))


class EasCall(Stage):
    name = "EAS.__call__"
    plots = True
    cost = 40

    def setup(self):
        from nuspacesim.simulation.eas_optical.eas import EAS
        quiet_progress()
        self.obj = EAS(make_config({"cloud": "uniform"}))
        _shower_pool(self)
        self.alt[4:] = np.where(self.rng.random(self.n - 4) < 0.6, self.alt[4:], 30.0)

    def call(self, idx, plot=False):
        import dask
        a = [self.buf("beta", self.beta[idx]), self.buf("alt", self.alt[idx]), self.buf("E", self.E[idx]), self.buf("lat", self.lat[idx]), self.buf("lon", self.lon[idx])]
        keep = [x.copy() for x in a]
        with dask.config.set(scheduler="synchronous"):
            pe, c = plots.call(self.obj, *a, plot=plot, cloudf=_site_cloud)
        return self.digest_outputs([pe, c], len(idx)), _intact(keep, a)


class EasCallThreads(EasCall):
    """the same stage under dask's threaded scheduler: one shared kernel object evaluated re-entrantly"""
    name = "EAS.__call__[threads-4]"
    plots = False

    def call(self, idx):
        import dask
        a = [self.buf("beta", self.beta[idx]), self.buf("alt", self.alt[idx]), self.buf("E", self.E[idx]), self.buf("lat", self.lat[idx]), self.buf("lon", self.lon[idx])]
        keep = [x.copy() for x in a]
        with dask.config.set(scheduler="threads", num_workers=4):
            pe, c = self.obj(*a, cloudf=_site_cloud)
        return self.digest_outputs([pe, c], len(idx)), _intact(keep, a)


class RadioCall(Stage):
    name = "EASRadio.__call__"
    cost = 4

    def setup(self):
        from nuspacesim.simulation.eas_radio.radio import EASRadio
        self.cfg = make_config({})
        self.obj = EASRadio(self.cfg)
        _shower_pool(self)

    def call(self, idx):
        from nuspacesim.simulation.eas_radio.radio_antenna import calculate_snr
        a = [self.buf("beta", self.beta[idx]), self.buf("alt", self.alt[idx]), self.buf("len", self.len[idx]), self.buf("theta", self.theta[idx]),
             self.buf("path", self.path[idx]), self.buf("E", self.E[idx])]
        keep = [x.copy() for x in a]
        with rngmod.constant(0.37):
            ef = self.obj(*a)
        ef = np.asarray(ef)
        efk = ef.copy()
        r = self.cfg.detector.radio
        snr = calculate_snr(ef, (r.low_frequency, r.high_frequency), self.cfg.detector.initial_position.altitude,
                            r.nantennas, r.gain)
        return self.digest_outputs([ef, snr], len(idx)), _intact(keep + [efk], a + [ef])


ALL = [GeomThrow, GeomCall, TooThrow, TooCall, SpectraStage, TauEnergy, TauExit, TauExitV1, TausCall, TauInterleaved, CdfSampler,
       Vec1dInterp, AltDec, EasCall, EasCallThreads, RadioCall]
BY_NAME = {c.name: c for c in ALL}
