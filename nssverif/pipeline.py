"""Drive nuspacesim.compute() with an instrumented results table, fault injection and RNG seeding;
project what happened to the trace events of TraceNuSpaceSim.tla / TraceRuns.tla."""
import hashlib
import json
import os
import subprocess
import sys
import tempfile
import warnings

import numpy as np

from . import use_repo, VERIF, REPO

warnings.simplefilter("ignore")


class InjectedFault(Exception):
    pass


# ------------------------------------------------------------------ configuration
def make_config(spec):
    """spec: dict(mode, spectrum, cloud, optical, radio, altitude, thrown, [extras])"""
    use_repo()
    from nuspacesim.config import NssConfig, Simulation
    c = NssConfig()
    s = c.simulation
    s.mode = spec.get("mode", "Diffuse")
    s.thrown_events = int(spec.get("thrown", 150))
    sp = spec.get("spectrum", "mono")
    if sp == "mono":
        s.spectrum = Simulation.MonoSpectrum(log_nu_energy=spec.get("log_e", 8.5))
    else:
        s.spectrum = Simulation.PowerSpectrum(index=spec.get("index", 2.0), lower_bound=spec.get("lo", 7.0),
                                              upper_bound=spec.get("hi", 10.5))
    cl = spec.get("cloud", "none")
    if cl == "none":
        s.cloud_model = Simulation.NoCloud()
    elif cl == "uniform":
        s.cloud_model = Simulation.MonoCloud(altitude=spec.get("cloud_alt", 4.0))
    else:
        s.cloud_model = Simulation.PressureMapCloud(month=spec.get("month", 6))
    c.detector.optical.enable = bool(spec.get("optical", True))
    c.detector.radio.enable = bool(spec.get("radio", True))
    c.detector.initial_position.altitude = float(spec.get("altitude", 525.0))
    if "limb" in spec:
        s.angle_from_limb = float(spec["limb"])
    if "cher" in spec:
        s.max_cherenkov_angle = float(spec["cher"])
    if "pe_thr" in spec:
        c.detector.optical.photo_electron_threshold = float(spec["pe_thr"])
    if "snr_thr" in spec:
        c.detector.radio.snr_threshold = float(spec["snr_thr"])
    if s.mode == "Target":
        t = s.target
        t.source_RA = float(spec.get("ra", 0.5))
        t.source_DEC = float(spec.get("dec", -0.3))
        t.source_obst = float(spec.get("obst", 86400.0))
        if "date" in spec:
            t.source_date = spec["date"]
        if "det_lat" in spec:
            c.detector.initial_position.latitude = float(spec["det_lat"])
        if "det_lon" in spec:
            c.detector.initial_position.longitude = float(spec["det_lon"])
        if "sun_moon_cuts" in spec:
            c.detector.sun_moon.sun_moon_cuts = bool(spec["sun_moon_cuts"])
    # generic overrides: {"detector.radio.nantennas": 4, ...}
    for path, val in (spec.get("set") or {}).items():
        obj = c
        parts = path.split(".")
        for a in parts[:-1]:
            obj = getattr(obj, a)
        setattr(obj, parts[-1], val)
    return c


# ------------------------------------------------------------------ digests
class Tokens:
    """small integer token per distinct digest, so that TLC compares integers"""

    def __init__(self):
        self.map = {}
        self.initial_keys = set()     # upper-cased header keywords the run's table was created with (see snapshot_table)

    def tok(self, digest):
        return self.map.setdefault(digest, len(self.map) + 1)


def _native(a):
    a = np.asarray(a)
    if a.dtype.byteorder not in ("=", "|"):
        a = a.astype(a.dtype.newbyteorder("="))
    return np.ascontiguousarray(a)


def col_digest(col):
    """bitwise digest of a column's values (endianness-normalised); Time columns by (jd1, jd2)"""
    h = hashlib.sha256()
    if hasattr(col, "jd1") and hasattr(col, "jd2"):
        for part in (col.jd1, col.jd2):
            a = _native(part)
            h.update(b"time" + str(a.shape).encode() + a.tobytes())
        return h.hexdigest()
    a = _native(getattr(col, "data", col))
    h.update(a.dtype.str.lstrip("<>=|").encode() + str(a.shape).encode() + a.tobytes())
    return h.hexdigest()


def val_digest(v):
    if isinstance(v, tuple):
        v = v[0]
    if isinstance(v, (bool, np.bool_)):
        return "b" + str(bool(v))
    if isinstance(v, (int, np.integer)):
        return "n" + repr(float(v))
    if isinstance(v, (float, np.floating)):
        # a FITS header card holds a float as text with 16 significant digits (astropy: f"{v:.16G}"), so header
        # values are compared at that precision (C16 decides what the file format can represent)
        return "n" + repr(float(f"{float(v):.16G}"))
    return "s" + str(v)


def meta_proj(v, toks):
    """header value for TLC: numbers as ["n", <<hi, lo>>] (compared at FITS card precision by the spec), anything
    else as ["s", token]"""
    from .f64 import bits
    if isinstance(v, tuple):
        v = v[0]
    if isinstance(v, (bool, np.bool_)):
        return ["s", toks.tok("b" + str(bool(v)))]
    if isinstance(v, (int, float, np.integer, np.floating)):
        f = float(v)
        if f != f or f in (float("inf"), float("-inf")):
            return ["x", toks.tok("nonfinite" + repr(f))]      # not representable on a FITS header card
        return ["n", bits(f)]
    return ["s", toks.tok("s" + str(v))]


RESULT_KEYS_PREFIX = ("OMC", "ONEV", "RMC", "RNEV")


def is_config_key(k):
    k = str(k)
    return k.upper().startswith("HIERARCH") or k.startswith("Config") or k.lower().startswith("config ")


def snapshot_table(t, toks):
    """projection of a table / file for the trace: columns and the header keywords ADDED BY THE STAGES.  The header the table is
    created with (results_table.init: start time, flattened configuration, any provenance cards) is not stage output: its keys
    (toks.initial_keys, recorded when the run's table is created) are left to C16, which decides what the header must contain."""
    cols = list(t.colnames)
    initial = getattr(toks, "initial_keys", ())
    meta_keys = [k for k in t.meta.keys() if not is_config_key(k) and k not in ("simTime", "SIMTIME", "EXTNAME", "comments")
                 and str(k).upper() not in initial]
    return {
        "present": True,
        "cols": cols,
        "rows": int(len(t)) if cols else 0,
        "dig": [toks.tok(col_digest(t[c])) for c in cols],
        "meta": [str(k) for k in meta_keys],
        "metav": [meta_proj(t.meta[k], toks) for k in meta_keys],
    }


ABSENT = {"present": False, "cols": [], "rows": 0, "dig": [], "meta": [], "metav": []}


def snapshot_file(path, toks):
    from astropy.table import Table
    if not path or not os.path.exists(path):
        return dict(ABSENT)
    try:
        t = Table.read(path, format="fits", astropy_native=True)
    except Exception as ex:  # unreadable file: reported as a present file with no content
        return {"present": True, "cols": ["<unreadable: %s>" % type(ex).__name__], "rows": 0, "dig": [0], "meta": [], "metav": []}
    return snapshot_table(t, toks)


# ------------------------------------------------------------------ instrumented table
def install_table(events, toks, out_path, fault, sink=None):
    """Patch nuspacesim.results_table.init so that compute() works on a Table subclass that logs every
    mutation (before it happens, with a read-back snapshot of the output file).  Returns an undo()."""
    use_repo()
    from astropy.table import Table
    import nuspacesim.results_table as rt

    counter = {"k": 0}

    def emit(e):
        events.append(e)
        if sink is not None:
            sink.write(json.dumps(e) + "\n")
            sink.flush()
            os.fsync(sink.fileno())

    writer = {"frame": None}

    def same_writer_call():
        """does this mutation belong to the writer call that made the previous one?  The writer call is the innermost frame of
        nuspacesim code above the mutation (StagedWriter.__call__ / add_meta in the pinned tree); it is the same call iff that very
        frame object is still on the stack.  A writer that sets several header keywords and rewrites the file once at its end is
        one boundary, not several."""
        f = sys._getframe(2)
        stack = []
        while f is not None:
            stack.append(f)
            f = f.f_back
        mine = next((fr for fr in stack if os.sep + "nuspacesim" + os.sep in fr.f_code.co_filename
                     and not fr.f_code.co_filename.startswith(VERIF)), None)
        prev = writer["frame"]
        writer["frame"] = mine
        return prev is not None and any(fr is prev for fr in stack)

    def before_mutation(kind, names, rows, dig):
        cont = same_writer_call()
        snap = snapshot_file(out_path, toks)
        if cont:
            # not a boundary: no fault is injected here and the boundary counter does not advance
            emit({"kind": kind, "names": list(names), "rows": int(rows), "dig": dig, "disk": snap, "k": counter["k"], "cont": True})
            return
        counter["k"] += 1
        k = counter["k"]
        if fault and fault[0] == "boundary" and fault[1] == k:
            if fault[2] == "exit":
                emit({"kind": "End", "outcome": "dead", "injected": True, "disk": snap, "mem": dict(ABSENT), "k": k, "inWriter": False})
                os._exit(9)
            emit_pending["fault_at"] = k
            raise InjectedFault(f"boundary {k}")
        emit({"kind": kind, "names": list(names), "rows": int(rows), "dig": dig, "disk": snap, "k": k, "cont": False})

    emit_pending = {}
    primary = {}

    class MetaDict(dict):
        def __setitem__(self, key, value):
            if (id(self) == primary.get("meta") and not getattr(self, "_quiet", False) and not is_config_key(key)
                    and key != "simTime" and not str(key).startswith("__") and str(key).upper() not in toks.initial_keys):
                before_mutation("meta", [str(key)], 0, [meta_proj(value, toks)])
            dict.__setitem__(self, key, value)

    class VTable(Table):
        def write(self, *a, **kw):
            # fault ("write", k): the k-th rewrite of the file fails while the table is converted, i.e. before astropy has touched the
            # old file (Table.write converts first and removes the old file afterwards): the file must stay the last complete prefix
            if id(self) == primary.get("table"):
                counter["writes"] = counter.get("writes", 0) + 1
                if fault and fault[0] == "write" and fault[1] == counter["writes"]:
                    counter["in_writer"] = True
                    raise InjectedFault(f"write {fault[1]}")
            return Table.__dict__["write"].__get__(self, type(self))(*a, **kw)      # astropy's write is a descriptor, not a function

        def add_columns(self, cols, indexes=None, names=None, **kw):
            cols = list(cols)
            nm = list(names) if names is not None else [getattr(c, "name", "?") for c in cols]
            if id(self) == primary.get("table") and not getattr(self, "_quiet", False):
                rows = len(cols[0]) if cols else 0
                before_mutation("cols", nm, rows, [toks.tok(col_digest(c)) for c in cols])
            self._quiet = True
            try:
                return Table.add_columns(self, cols, indexes=indexes, names=names, **kw)
            finally:
                self._quiet = False

        def add_column(self, *a, **kw):
            if id(self) != primary.get("table") or getattr(self, "_quiet", False):
                return Table.add_column(self, *a, **kw)
            col = a[0] if a else kw.get("col")
            name = kw.get("name") or getattr(col, "name", "?")
            before_mutation("cols", [name], len(col), [toks.tok(col_digest(col))])
            self._quiet = True
            try:
                return Table.add_column(self, *a, **kw)
            finally:
                self._quiet = False

    orig_init = rt.init

    def init(config=None):
        t = orig_init(config)
        toks.initial_keys = {str(k).upper() for k in t.meta.keys()}
        v = VTable(t, copy=False)
        md = MetaDict()
        md._quiet = True
        for k, val in t.meta.items():
            md[k] = val
        md._quiet = False
        v.meta = md
        primary["table"] = id(v)
        primary["meta"] = id(v.meta)
        return v

    rt.init = init
    # a module that imported the function by name (from .results_table import init) holds its own reference
    rebound = []
    for mod in list(sys.modules.values()):
        if mod is None or not getattr(mod, "__name__", "").startswith("nuspacesim") or mod is rt:
            continue
        for name, val in list(vars(mod).items()):
            if val is orig_init:
                setattr(mod, name, init)
                rebound.append((mod, name))

    def undo():
        rt.init = orig_init
        for mod, name in rebound:
            setattr(mod, name, orig_init)

    return undo, counter


STAGE_POINTS = {
    "geom": ("nuspacesim.simulation.geometry.region_geometry", "RegionGeom", "throw"),
    "geom_too": ("nuspacesim.simulation.geometry.region_geometry", "RegionGeomToO", "throw"),
    "spectrum": ("nuspacesim.simulation.spectra.spectra", None, "spec_norm"),
    "tau_exit": ("nuspacesim.simulation.taus.taus", "Taus", "tau_exit_prob"),
    "tau_energy": ("nuspacesim.simulation.taus.taus", "Taus", "tau_energy"),
    "decay": ("nuspacesim.simulation.eas_optical.eas", "EAS", "altDec"),
    "cphot": ("nuspacesim.simulation.eas_optical.cphotang", "CphotAng", "__call__"),
    "radio_view": ("nuspacesim.simulation.eas_radio.radio", "EASRadio", "get_decay_view"),
    "snr": ("nuspacesim.compute", None, "calculate_snr"),
    "mcint": ("nuspacesim.simulation.geometry.region_geometry", "RegionGeom", "mcintegral"),
    "mcint_too": ("nuspacesim.simulation.geometry.region_geometry", "RegionGeomToO", "mcintegral"),
}


def install_stage_fault(name, nth=1):
    """make the nth call of a stage method raise InjectedFault; returns undo()"""
    import importlib
    modname, cls, attr = STAGE_POINTS[name]
    mod = importlib.import_module(modname)
    holder = getattr(mod, cls) if cls else mod
    if not hasattr(holder, attr):
        return lambda: None
    orig = getattr(holder, attr)
    calls = {"n": 0}

    def wrapped(*a, **kw):
        calls["n"] += 1
        if calls["n"] == nth:
            raise InjectedFault(f"stage {name}")
        return orig(*a, **kw)

    setattr(holder, attr, wrapped)
    return lambda: setattr(holder, attr, orig)


def quiet_progress():
    """dask's ProgressBar runs a timer thread (100 ms per compute()) and floods stdout; it is output only.  The stand-in accepts
    whatever arguments the code passes to ProgressBar (minimum=, dt=, out=, ...)."""
    from nuspacesim.simulation.eas_optical import cphotang
    if hasattr(cphotang, "ProgressBar"):
        from dask.callbacks import Callback

        class QuietBar(Callback):
            def __init__(self, *args, **kwargs):
                super().__init__()

        cphotang.ProgressBar = QuietBar


def scheduler_ctx(name):
    import dask
    from . import daskkit
    if name == "sync":
        return dask.config.set(scheduler="synchronous")
    if name.startswith("threads"):
        return dask.config.set(scheduler="threads", num_workers=int(name.split("-")[1]))
    if name.startswith("processes"):
        return dask.config.set(scheduler="processes", num_workers=int(name.split("-")[1]))
    if name == "reversed":
        return dask.config.set(scheduler=daskkit.ordered_get(list(range(63, -1, -1)), daskkit.ExecLog()))
    raise ValueError(name)


def run_compute(spec, seed, scheduler="sync", write_stages=True, fault=None, out_dir=None, sink=None, keep_table=False,
                out_name="out.fits", path_form="str", preexisting=False):
    """One compute() run -> (events, final_table or None).  fault: None | ("boundary", k, "raise"|"exit") |
    ("stage", name)."""
    use_repo()
    import importlib
    comp_mod = importlib.import_module("nuspacesim.compute")
    if not hasattr(comp_mod, "results_table"):
        comp_mod = sys.modules["nuspacesim.compute"]
    quiet_progress()
    cfg = make_config(spec)
    toks = Tokens()
    own = out_dir is None
    out_dir = out_dir or tempfile.mkdtemp(prefix="nsv-run-")
    out = os.path.join(out_dir, out_name)
    if os.path.exists(out):
        os.remove(out)
    if preexisting:
        # history: the output path already holds the (FITS) file of an earlier run with other columns and another header
        from astropy.table import Table as _T
        _T({"stale_col": np.array([1.5, 2.5, 3.5])}, meta={"STALE": 1}).write(out, format="fits", overwrite=True)
    events = []
    begin = {"kind": "Begin", "mode": cfg.simulation.mode, "optical": bool(cfg.detector.optical.enable),
             "radio": bool(cfg.detector.radio.enable), "writeStages": bool(write_stages),
             "stale": bool(preexisting), "disk0": snapshot_file(out, toks)}
    events.append(begin)
    if sink is not None:
        sink.write(json.dumps(begin) + "\n")
        sink.flush()
    undo, counter = install_table(events, toks, out if True else None, fault, sink)
    undo_stage = install_stage_fault(fault[1]) if fault and fault[0] == "stage" else (lambda: None)
    sim, outcome, exc = None, "return", None
    np.random.seed(seed)
    try:
        with scheduler_ctx(scheduler):
            import io
            import contextlib
            with contextlib.redirect_stdout(io.StringIO()):
                # the output file as the caller spells it: a str or a path object (both are file names)
                import pathlib
                out_arg = pathlib.Path(out) if path_form == "pathlib" else out
                sim = comp_mod.compute(cfg, verbose=False, output_file=out_arg, write_stages=write_stages)
    except InjectedFault as ex:
        outcome, exc = "raise", ex
    except Exception as ex:
        outcome, exc = "raise", ex
    finally:
        undo()
        undo_stage()
    injected = isinstance(exc, InjectedFault)
    end = {"kind": "End", "outcome": outcome, "injected": bool(injected), "inWriter": bool(counter.get("in_writer", False)), "disk": snapshot_file(out, toks),
           "mem": snapshot_table(sim, toks) if sim is not None else dict(ABSENT), "k": counter["k"] + 1}
    events.append(end)
    meta = {"spec": spec, "seed": seed, "scheduler": scheduler, "write_stages": write_stages, "fault": fault,
            "exception": None if exc is None else repr(exc)[:300]}
    for e in events:
        e["_m"] = dict(meta, kind=e["kind"], k=e.get("k"), names=e.get("names"))
    if own:
        import shutil
        shutil.rmtree(out_dir, ignore_errors=True)
    return events, (sim if keep_table else None)


def run_compute_subprocess(spec, seed, k, out_dir):
    """process death at boundary k: run compute() in a child that calls os._exit(9) there"""
    log = os.path.join(out_dir, "events.ndjson")
    req = {"spec": spec, "seed": seed, "k": k, "out_dir": out_dir, "log": log}
    env = dict(os.environ, PYTHONPATH=VERIF, VERIF_REPO=REPO)
    p = subprocess.run([sys.executable, "-m", "nssverif.pipeline", json.dumps(req)], env=env, cwd=VERIF,
                       stdout=subprocess.PIPE, stderr=subprocess.STDOUT, timeout=600)
    events = [json.loads(l) for l in open(log)] if os.path.exists(log) else []
    toks = None
    meta = {"spec": spec, "seed": seed, "fault": ["boundary", k, "exit"], "child_rc": p.returncode}
    if not events or events[-1].get("kind") != "End":
        # the child died without the hook firing (k beyond the last boundary) or crashed
        meta["child_tail"] = p.stdout.decode(errors="replace")[-500:]
    for e in events:
        e["_m"] = dict(meta, kind=e["kind"], k=e.get("k"), names=e.get("names"))
    return events, p.returncode


def _child_main(req):
    spec, seed, k, out_dir, log = req["spec"], req["seed"], req["k"], req["out_dir"], req["log"]
    with open(log, "w") as sink:
        events, _ = run_compute(spec, seed, "sync", True, ("boundary", k, "exit"), out_dir=out_dir, sink=sink)
        # not reached when the hook fired; otherwise log the normal End
        sink.write(json.dumps({a: b for a, b in events[-1].items() if a != "_m"}) + "\n")


if __name__ == "__main__":
    _child_main(json.loads(sys.argv[1]))
