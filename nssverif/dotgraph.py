"""Read TLC's `-dump dot,actionlabels` state graph: nodes (parsed states), labelled edges, and
enumeration of all maximal paths."""
import re

from . import tlaval

_NODE = re.compile(r'^(-?\d+) \[label="((?:[^"\\\\]|\\\\.)*)"(,style = filled)?')
_EDGE = re.compile(r'^(-?\d+) -> (-?\d+) \[label="([^"]*)"')


def _unescape(s):
    return s.replace("\\n", "\n").replace('\\"', '"').replace("\\\\", "\\")


def parse_state(text):
    st = {}
    for conj in re.split(r"\n?/\\ ", text):
        conj = conj.strip()
        if not conj:
            continue
        name, val = conj.split(" = ", 1)
        st[name.strip()] = tlaval.parse(val)
    return st


def load(path):
    nodes, edges, init = {}, {}, []
    with open(path) as f:
        for line in f:
            line = line.rstrip("\n")
            m = _EDGE.match(line)
            if m:
                a, b, lab = m.group(1), m.group(2), m.group(3)
                if a != b or True:
                    edges.setdefault(a, []).append((b, lab))
                continue
            m = _NODE.match(line)
            if m:
                nodes[m.group(1)] = parse_state(_unescape(m.group(2)))
                if m.group(3):
                    init.append(m.group(1))
    return nodes, edges, init


def maximal_paths(nodes, edges, init, limit=200000):
    """All maximal paths (lists of node ids) of an acyclic state graph (self-loops ignored)."""
    out = []
    stack = [(i, [i]) for i in init]
    while stack:
        n, path = stack.pop()
        succ = [b for b, _ in edges.get(n, []) if b != n]
        seen = set()
        succ = [b for b in succ if not (b in seen or seen.add(b))]
        if not succ:
            out.append(path)
            if len(out) > limit:
                raise RuntimeError("too many paths")
            continue
        for b in succ:
            if b in path:
                continue
            stack.append((b, path + [b]))
    return out
