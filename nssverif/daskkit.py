"""dask instrumentation: an order-controlled scheduler (spec -> code replay) and a tracing
callback for the unmodified schedulers (code -> spec).  Neither assumes anything about the bag
graph beyond: keys of per-partition tasks are (name, partition_index) tuples and there is one
final gather task."""
import dask
from dask._task_spec import Alias, DataNode, convert_legacy_graph
from dask.callbacks import Callback


def _graph(dsk):
    dsk = dsk.__dask_graph__() if hasattr(dsk, "__dask_graph__") else dsk
    return convert_legacy_graph(dict(dsk))


def _pidx(key):
    if isinstance(key, tuple) and len(key) == 2 and isinstance(key[1], int):
        return key[1]
    return None


def _resolve(g, key):
    seen = set()
    while isinstance(g.get(key), Alias) and key not in seen:
        seen.add(key)
        (key,) = tuple(g[key].dependencies)
    return key


def partition_outputs(g):
    """keys (partition index -> key) the final gather task depends on."""
    finals = [k for k in g if _pidx(k) is None and not isinstance(g[k], DataNode)]
    outs = {}
    for f in finals:
        for d in g[f].dependencies:
            if _pidx(d) is not None:
                outs[_pidx(d)] = d
    return outs


class ExecLog:
    """Linearised record of one batch execution: list of (kind, p, payload)."""

    def __init__(self):
        self.events = []
        self.nparts = None

    def add(self, kind, p=None, payload=None):
        self.events.append((kind, p, payload))


def ordered_get(order, log, fail_fast=True):
    """A dask scheduler that runs the partition tasks strictly one after the other in `order`
    (0-based partition indices; partitions not listed run afterwards in index order)."""
    rank = {p: i for i, p in enumerate(order)}

    def prio(k):
        p = _pidx(k)
        if p is None:
            return (1, 0, str(k))
        return (0, rank.get(p, 10 ** 6 + p), str(k[0]))

    def get(dsk, keys, **kw):
        g = _graph(dsk)
        outs = partition_outputs(g)
        log.nparts = len(outs)
        started = set()
        cache = {}
        rem = dict(g)
        while rem:
            ready = [k for k, t in rem.items() if all(d in cache for d in t.dependencies)]
            k = min(ready, key=prio)
            t = rem.pop(k)
            p = _pidx(k)
            if p is not None and p not in started and not isinstance(t, DataNode):
                started.add(p)
                log.add("Start", p)
            try:
                cache[k] = t({d: cache[d] for d in t.dependencies})
            except BaseException:
                if p is not None:
                    log.add("Fail", p)
                raise
            if p is not None and outs.get(p) == k:
                log.add("Finish", p, cache[k])

        def look(ks):
            if isinstance(ks, list):
                return [look(x) for x in ks]
            return cache[ks]

        return look(keys)

    return get


def scripted_get(steps, log):
    """A dask scheduler that follows a TLC behaviour of Batch.tla step by step: ("Start", p) takes the
    partition, ("Finish", p) / ("Fail", p) evaluates it now.  Partitions the script does not mention
    are evaluated afterwards in index order; then the gather task runs."""

    def get(dsk, keys, **kw):
        g = _graph(dsk)
        outs = partition_outputs(g)
        log.nparts = len(outs)
        cache = {}
        rem = dict(g)
        started = set()

        def run_ready(pred):
            progressed = True
            while progressed:
                progressed = False
                for k in sorted([k for k in rem if pred(k)], key=str):
                    t = rem[k]
                    if all(d in cache for d in t.dependencies):
                        del rem[k]
                        p = _pidx(k)
                        try:
                            cache[k] = t({d: cache[d] for d in t.dependencies})
                        except BaseException:
                            if p is not None:
                                log.add("Fail", p)
                            raise
                        if p is not None and outs.get(p) == k:
                            log.add("Finish", p, cache[k])
                        progressed = True

        run_ready(lambda k: isinstance(rem[k], DataNode))
        for kind, p in steps:
            if p not in outs:
                continue
            if kind == "Start":
                if p not in started:
                    started.add(p)
                    log.add("Start", p)
            else:
                if p not in started:
                    started.add(p)
                    log.add("Start", p)
                run_ready(lambda k: _pidx(k) == p)
        for p in sorted(outs):
            if any(_pidx(k) == p for k in rem):
                if p not in started:
                    started.add(p)
                    log.add("Start", p)
                run_ready(lambda k: _pidx(k) == p)
        run_ready(lambda k: True)

        def look(ks):
            if isinstance(ks, list):
                return [look(x) for x in ks]
            return cache[ks]

        return look(keys)

    return get


class TraceCallback(Callback):
    """Records Start / Finish / Fail of partitions under any dask local scheduler.  dask invokes
    these callbacks from the scheduler's main thread, so the log is already linearised."""

    def __init__(self, log):
        super().__init__()
        self.log = log
        self.started = set()
        self.outs = {}
        self.g = {}

    def _start(self, dsk):
        self.g = _graph(dsk)
        self.outs = partition_outputs(self.g)
        self.log.nparts = len(self.outs)

    def _pretask(self, key, dsk, state):
        p = _pidx(key)
        if p is not None and p not in self.started and not isinstance(self.g.get(key), DataNode):
            self.started.add(p)
            self.log.add("Start", p)

    def _posttask(self, key, result, dsk, state, worker_id):
        p = _pidx(key)
        if p is not None and self.outs.get(p) == key:
            self.log.add("Finish", p, result)

    def _finish(self, dsk, state, errored):
        if errored:
            self.log.add("Errored")


def scheduler_ctx(kind, workers=None):
    if kind == "synchronous":
        return dask.config.set(scheduler="synchronous")
    if kind == "threads":
        return dask.config.set(scheduler="threads", num_workers=workers)
    if kind == "processes":
        return dask.config.set(scheduler="processes", num_workers=workers)
    raise ValueError(kind)
