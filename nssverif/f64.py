"""Doubles <-> the <<hi, lo>> signed 32-bit pairs used by Float64.tla."""
import struct

import numpy as np


def bits(x):
    """float -> [hi, lo] (signed 32-bit halves of the IEEE-754 bit pattern)."""
    hi, lo = struct.unpack(">ii", struct.pack(">d", float(x)))
    return [hi, lo]


def unbits(p):
    return struct.unpack(">d", struct.pack(">ii", int(p[0]), int(p[1])))[0]


def bits_array(a):
    """array of doubles -> nested lists of [hi, lo]."""
    a = np.ascontiguousarray(a, dtype=np.float64)
    raw = a.view(np.int64)
    hi = (raw >> 32).astype(np.int64)
    lo = (raw & 0xFFFFFFFF).astype(np.int64)
    lo = np.where(lo >= 2**31, lo - 2**32, lo)
    out = np.stack([hi, lo], axis=-1)
    return out.tolist()
