"""Plot requests for decorated stages (utils/decorators.nss_result_plot) under a non-interactive backend.
A stage called with plot=<names> must return what it returns without plots and leave its inputs alone: the plot
functions receive the very arrays the stage returns."""
import contextlib


def setup():
    import matplotlib
    matplotlib.use("Agg", force=True)
    import matplotlib.pyplot as plt
    plt.show = lambda *a, **k: None
    return plt


def all_names():
    """every registered plot function name (importing compute registers the stage decorators)"""
    import importlib
    importlib.import_module("nuspacesim.compute")
    from nuspacesim.utils.plot_function_registry import registry
    return sorted(registry)


@contextlib.contextmanager
def plotting():
    plt = setup()
    try:
        yield all_names()
    finally:
        plt.close("all")


def call(fn, *args, plot=False, **kw):
    """fn(*args, **kw), with every registered plot requested when plot is true"""
    if not plot:
        return fn(*args, **kw)
    import warnings
    with plotting() as names, warnings.catch_warnings():
        warnings.simplefilter("ignore")
        return fn(*args, plot=names, **kw)
