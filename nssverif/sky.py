"""Celestial environment, computed with astropy directly from configuration VALUES (not through
nuspacesim.simulation.geometry.too): source altitude/azimuth, Sun/Moon altitude, Moon phase angle."""
import numpy as np


def _frame(det_lat, det_lon, det_alt_km, times):
    import astropy.coordinates as ac
    import astropy.units as u
    loc = ac.EarthLocation(lat=det_lat * u.rad, lon=det_lon * u.rad, height=det_alt_km * 1000.0 * u.m)
    return ac.AltAz(obstime=times, location=loc)


def times_of(date, fmt, seconds):
    import astropy.time as at
    t0 = at.Time(date, format=fmt, scale="utc")
    return t0 + at.TimeDelta(np.asarray(seconds, dtype=float), format="sec")


def source_altaz(ra, dec, det_lat, det_lon, det_alt_km, times):
    import astropy.coordinates as ac
    import astropy.units as u
    src = ac.SkyCoord(ra=ra * u.rad, dec=dec * u.rad, frame="icrs")
    loc = src.transform_to(_frame(det_lat, det_lon, det_alt_km, times))
    return np.atleast_1d(loc.alt.rad), np.atleast_1d(loc.az.rad)


def sun_moon(det_lat, det_lon, det_alt_km, times):
    """-> sun altitude, moon altitude, moon phase angle (rad) at each time"""
    import astropy.coordinates as ac
    fr = _frame(det_lat, det_lon, det_alt_km, times)
    sun = ac.get_body("sun", times)
    moon = ac.get_body("moon", times)
    sun_alt = np.atleast_1d(sun.transform_to(fr).alt.rad)
    moon_alt = np.atleast_1d(moon.transform_to(fr).alt.rad)
    elong = sun.separation(moon)
    phase = np.arctan2(sun.distance * np.sin(elong), moon.distance - sun.distance * np.cos(elong))
    return sun_alt, moon_alt, np.atleast_1d(phase.to_value("rad") if hasattr(phase, "to_value") else np.asarray(phase))


def dark(sun_alt, moon_alt, phase, sun_cut, moon_cut, min_phase):
    return (sun_alt < sun_cut) & ((moon_alt < moon_cut) | (phase > min_phase))
