"""./check <property> [--tier quick|thorough] [--replay file]"""
import argparse
import importlib
import os
import subprocess
import sys
import traceback

from . import BUILD, VERIF
from .tlc import MachineryError


def ensure_built():
    cls = os.path.join(BUILD, "tlc2", "module", "Float64.class")
    src = os.path.join(VERIF, "java", "tlc2", "module", "Float64.java")
    if not os.path.exists(cls) or os.path.getmtime(cls) < os.path.getmtime(src):
        subprocess.run(["sh", os.path.join(VERIF, "setup.sh")], check=True, stdout=subprocess.DEVNULL)


def main(argv=None):
    ap = argparse.ArgumentParser()
    ap.add_argument("prop")
    ap.add_argument("--tier", default=os.environ.get("VERIF_TIER", "quick"), choices=["quick", "thorough"])
    ap.add_argument("--replay", default=None)
    a = ap.parse_args(argv)
    seed = int(os.environ.get("VERIF_SEED", "0") or 0)
    try:
        ensure_built()
        # rebuild the C++ stepping kernel from the working tree once, here: every worker / scheduler process inherits it (environment)
        from . import zshim, REPO
        zshim.prepare(REPO)
        mod = importlib.import_module("drivers." + a.prop.lower())
        if a.replay:
            # a replay file records the tier and seed of the run that found the violation and the failing events with TLC's clause
            # names; the checks are deterministic in (tier, seed, working tree), so replaying = re-executing that run
            import json
            with open(a.replay) as f:
                rec = json.load(f)
            print(f"replaying {rec.get('property')} tier={rec.get('tier')} seed={rec.get('seed')}: "
                  f"{len(rec.get('violations', []))} recorded failing clause(s), first: "
                  f"{(rec.get('violations') or [{}])[0].get('clause')}")
            rc = mod.run(rec.get("tier", a.tier), int(rec.get("seed", seed)))
        else:
            rc = mod.run(a.tier, seed)
    except MachineryError as ex:
        print("MACHINERY-ERROR:", ex, file=sys.stderr)
        return 2
    except Exception:
        traceback.print_exc()
        print("MACHINERY-ERROR: driver raised", file=sys.stderr)
        return 2
    return rc


if __name__ == "__main__":
    sys.exit(main())
