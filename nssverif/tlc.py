"""Run TLC (with the Float64 override on the classpath) and parse what it prints."""
import os
import re
import shutil
import subprocess
import tempfile
import time
from concurrent.futures import ThreadPoolExecutor

from . import BUILD, SPEC, VERIF
from . import tlaval

JAR = "/opt/veriftools/tla/tla2tools.jar"
CM = "/opt/veriftools/tla/CommunityModules-deps.jar"


class MachineryError(Exception):
    """TLC could not run the check (parse error, missing file, timeout): exit code 2."""


class TLCResult:
    def __init__(self, rc, out, wall):
        self.rc = rc
        self.out = out
        self.wall = wall
        m = re.search(r"(\d+) states generated, (\d+) distinct states found", out)
        self.generated = int(m.group(1)) if m else 0
        self.distinct = int(m.group(2)) if m else 0
        m = re.search(r"The depth of the complete state graph search is (\d+)", out)
        self.depth = int(m.group(1)) if m else 0
        self.invariant_violated = re.findall(r"Invariant (\S+) is violated", out)
        self.property_violated = re.findall(r"(?:Action|Temporal) propert(?:y|ies) (\S*) ?(?:is|were) violated", out)
        self.postcondition_violated = "postcondition" in out.lower() and "violated" in out.lower() and "POSTCONDITION" not in out
        self.deadlock = "Deadlock reached" in out
        self.ok = rc == 0 and "Model checking completed. No error has been found." in out
        self.sim_ok = rc == 0 or "simulation" in out.lower()

    def printed(self, tag):
        """All PrintT'ed tuples whose first element is the string tag, parsed."""
        res = []
        body = "\n".join(ln for ln in self.out.splitlines() if not ln.startswith("@!@!@"))
        for chunk in tlaval.balanced_chunks(body):
            if re.match(r'<<\s*"' + re.escape(tag) + '"', chunk):
                try:
                    res.append(tlaval.parse(chunk))
                except tlaval.ParseError:
                    pass
        return res

    def coverage(self):
        """action name -> (distinct, total) from -coverage output."""
        cov = {}
        for m in re.finditer(r"<(\w+) line \d+, col \d+ to line \d+, col \d+ of module (\w+)>: (\d+):(\d+)", self.out):
            name = m.group(1)
            d, t = int(m.group(3)), int(m.group(4))
            a = cov.get(name, (0, 0))
            cov[name] = (a[0] + d, a[1] + t)
        return cov

    def error_trace(self):
        """States of the counterexample, as list of (header, text)."""
        states = re.split(r"\nState (\d+): ", self.out)
        res = []
        for k in range(1, len(states), 2):
            res.append((int(states[k]), states[k + 1].split("\n\n")[0]))
        return res


def run(module, cfg=None, **kw):
    """Run TLC; an infrastructure failure (JVM could not start, I/O error under load, ...) is retried once - the verdict always
    comes from a run that completed.  The output of a failed attempt is kept under build/tlc-failures/ for diagnosis."""
    try:
        return _run(module, cfg, **kw)
    except MachineryError as ex:
        if "timeout" in str(ex):
            raise
        d = os.path.join(BUILD, "tlc-failures")
        os.makedirs(d, exist_ok=True)
        with open(os.path.join(d, f"{module}-{int(time.time())}-{os.getpid()}.txt"), "w") as f:
            f.write(str(ex))
        return _run(module, cfg, **kw)


def _run(module, cfg=None, env=None, workers=1, timeout=600, args=(), spec_dir=SPEC, heap="2g",
         deadlock=None, coverage=False, constants=None, cwd=None):
    """Run TLC on spec_dir/module.tla with spec_dir/cfg (default module.cfg)."""
    cfg = cfg or (module + ".cfg")
    meta = tempfile.mkdtemp(prefix="tlcmeta-")
    cmd = [
        "java", "-XX:+UseParallelGC", f"-Xmx{heap}", "-Xss32m", "-Dtlc2.tool.fp.FPSet.impl=tlc2.tool.fp.OffHeapDiskFPSet",
        f"-DTLA-Library={spec_dir}", f"-Djava.io.tmpdir={meta}",
        "-cp", f"{BUILD}:{JAR}:{CM}", "tlc2.TLC",
        "-workers", str(workers), "-metadir", meta, "-noGenerateSpecTE",
        "-config", os.path.join(spec_dir, cfg),
    ]
    if coverage:
        cmd += ["-coverage", "1"]
    if deadlock is False:
        cmd += ["-deadlock"]
    cmd += list(args)
    cmd += [os.path.join(spec_dir, module + ".tla")]
    e = dict(os.environ)
    e.update(env or {})
    t0 = time.time()
    try:
        p = subprocess.run(cmd, env=e, cwd=cwd or spec_dir, stdout=subprocess.PIPE, stderr=subprocess.STDOUT,
                           timeout=timeout, text=True, errors="replace")
    except subprocess.TimeoutExpired as ex:
        raise MachineryError(f"TLC timeout after {timeout}s on {module}") from ex
    finally:
        shutil.rmtree(meta, ignore_errors=True)
    res = TLCResult(p.returncode, p.stdout, time.time() - t0)
    if re.search(r"(Parsing or semantic analysis failed|\*\*\* Errors:|Error: TLC threw an unexpected exception|"
                 r"Could not find|java\.lang\.\w*Error|was not found|Unknown operator|ParseException|"
                 r"TLC encountered an unexpected exception|evaluating an expression of the form|"
                 r"Error: Evaluating|Attempted to|The exception was a|Error: In evaluation|Error: The first argument|"
                 r"Error: Parsing the configuration|is not defined|Error: Configuration file)", res.out):
        first = res.out.find("Error:")
        head = res.out[max(0, first - 200):first + 1500] if first >= 0 else ""
        raise MachineryError(f"TLC failed on {module} ({cfg}):\n" + head + "\n[...]\n" + res.out[-4000:])
    return res


def run_many(jobs, max_par=16):
    """jobs: list of kwargs for run(); executed in parallel; returns results in order."""
    with ThreadPoolExecutor(max_workers=max_par) as ex:
        futs = [ex.submit(run, **j) for j in jobs]
        return [f.result() for f in futs]
