"""np.random shims.  nuSpaceSim draws through the module-level functions np.random.{rand, uniform, random,
random_sample}, which are looked up at call time, so they can be wrapped without touching the repository.  The other
distribution functions an implementation may reasonably switch to (exponential and normal families) are derived from the same
prescribed uniforms by inverse transform (E = -ln u, Z = Phi^-1(u)), so that "fixed random numbers" stays fixed."""
import contextlib

import numpy as np

_NAMES = ("rand", "uniform", "random", "random_sample", "standard_exponential", "exponential", "standard_normal", "normal", "randn")


@contextlib.contextmanager
def patched(uniform01):
    """uniform01(shape) -> array of numbers in [0, 1) used for every draw"""
    orig = {n: getattr(np.random, n) for n in _NAMES}

    def _shape(size):
        if size is None:
            return ()
        if isinstance(size, (int, np.integer)):
            return (int(size),)
        return tuple(int(x) for x in size)

    def uniform(low=0.0, high=1.0, size=None):
        if size is None:
            size = np.broadcast(np.asarray(low), np.asarray(high)).shape or None
        u = uniform01(_shape(size))
        return np.asarray(low) + (np.asarray(high) - np.asarray(low)) * u

    def rand(*shape):
        return uniform01(tuple(int(x) for x in shape))

    def random(size=None):
        return uniform01(_shape(size))

    def standard_exponential(size=None, *a, **k):
        with np.errstate(divide="ignore"):
            return -np.log(uniform01(_shape(size)))

    def exponential(scale=1.0, size=None):
        if size is None:
            size = np.shape(scale) or None
        return np.asarray(scale) * standard_exponential(size)

    def standard_normal(size=None, *a, **k):
        from scipy.special import ndtri
        return ndtri(np.clip(uniform01(_shape(size)), 1e-300, 1 - 1e-16))

    def normal(loc=0.0, scale=1.0, size=None):
        if size is None:
            size = np.broadcast(np.asarray(loc), np.asarray(scale)).shape or None
        return np.asarray(loc) + np.asarray(scale) * standard_normal(size)

    def randn(*shape):
        return standard_normal(tuple(int(x) for x in shape))

    np.random.uniform = uniform
    np.random.rand = rand
    np.random.random = random
    np.random.random_sample = random
    np.random.standard_exponential = standard_exponential
    np.random.exponential = exponential
    np.random.standard_normal = standard_normal
    np.random.normal = normal
    np.random.randn = randn
    try:
        yield
    finally:
        for n, f in orig.items():
            setattr(np.random, n, f)


def constant(c):
    """every draw is low + (high - low) * c"""
    return patched(lambda shape: np.full(shape, c) if shape else np.float64(c))


def event_keyed(u_events):
    """draws whose last axis has the length of the current batch get the events' own numbers (so the random number
    travels with the event when a batch is permuted or split); every other draw gets 0.5"""
    u_events = np.asarray(u_events, dtype=float)

    def f(shape):
        if shape and shape[-1] == len(u_events):
            return np.broadcast_to(u_events, shape).copy()
        return np.full(shape, 0.5) if shape else np.float64(0.5)

    return patched(f)


class Scripted:
    """serves prescribed numbers v in [0, 1): a draw of k numbers takes the next k of the script (cyclically);
    .served keeps what each draw actually returned (after the low/high mapping of uniform())"""

    def __init__(self, values):
        self.values = np.asarray(values, dtype=float).ravel()
        self.pos = 0
        self.served = []

    def _take(self, shape):
        k = int(np.prod(shape)) if shape else 1
        idx = (self.pos + np.arange(k)) % len(self.values)
        self.pos += k
        out = self.values[idx]
        return out.reshape(shape) if shape else np.float64(out[0])

    def __enter__(self):
        self._cm = patched(self._take)
        self._cm.__enter__()
        # wrap once more to record the values as the code received them
        self._inner = {n: getattr(np.random, n) for n in _NAMES}
        rec = self

        def wrap(f):
            def g(*a, **k):
                v = f(*a, **k)
                rec.served.append(np.array(v, copy=True))
                return v
            return g
        for n in _NAMES:
            setattr(np.random, n, wrap(self._inner[n]))
        return self

    def __exit__(self, *exc):
        return self._cm.__exit__(*exc)


class Recording:
    """context manager recording every draw (kind, low, high, shape, values)"""

    def __init__(self):
        self.draws = []

    def __enter__(self):
        self._orig = {n: getattr(np.random, n) for n in _NAMES}
        rec = self

        def wrap(name):
            f = self._orig[name]

            def g(*a, **k):
                v = f(*a, **k)
                rec.draws.append({"fn": name, "args": a, "kwargs": k, "values": np.array(v, copy=True)})
                return v
            return g
        for n in _NAMES:
            setattr(np.random, n, wrap(n))
        return self

    def __exit__(self, *exc):
        for n, f in self._orig.items():
            setattr(np.random, n, f)
        return False
