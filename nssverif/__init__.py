"""Harness for the TLA+ model-based verification of nuSpaceSim.

The Python side only drives the implementation, records / projects events and runs TLC;
every verdict is produced by TLC on the specifications under /verif/spec.
"""
import os
import sys

VERIF = os.path.dirname(os.path.dirname(os.path.abspath(__file__)))
REPO = os.environ.get("VERIF_REPO", "/repo")
SPEC = os.path.join(VERIF, "spec")
BUILD = os.path.join(VERIF, "build")


def use_repo():
    """Import nuspacesim from the working tree under $VERIF_REPO (default /repo)."""
    src = os.path.join(REPO, "src")
    if src not in sys.path:
        sys.path.insert(0, src)
    if "nuspacesim" not in sys.modules:
        # the C++ stepping kernel is rebuilt from the working tree's zsteps.cpp and served in place of the prebuilt extension
        from . import zshim
        zshim.prepare(REPO)
    import nuspacesim  # noqa: F401

    got = os.path.realpath(os.path.dirname(nuspacesim.__file__))
    want = os.path.realpath(os.path.join(src, "nuspacesim"))
    if got != want:
        raise RuntimeError(f"nuspacesim imported from {got}, expected {want}")
    return nuspacesim
