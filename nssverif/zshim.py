"""Rebuild nuSpaceSim's C++ stepping kernel (eas_optical/src/zsteps.cpp) from the working tree under $VERIF_REPO and serve it in
place of the prebuilt extension module: "checks must rebuild from /repo's current working tree", and pybind11 is not installed, so the
function template is compiled unchanged against stand-in headers (/verif/zshim) and reached through ctypes.

On the pinned source the rebuilt kernel is compared bit for bit with the prebuilt extension before it is used (any difference ->
the prebuilt module stays in place, noted in the evidence); on an edited source it is used as built."""
import hashlib
import os
import subprocess
import sys

from . import VERIF, BUILD

PINNED_SHA = "ab68307b825994f8b0d8ad1e94b1f50f7ae6e37481a1c2a7a8e5577357c83e68"
SITE = os.path.join(VERIF, "zshim", "site")
STATE = {"status": "not attempted"}


def _loader():
    if SITE not in sys.path:
        sys.path.insert(0, SITE)
    import nsv_zsteps_loader
    return nsv_zsteps_loader


def _same_as_prebuilt(fn, repo):
    """bitwise comparison with the prebuilt extension on a spread of inputs (pinned source only)"""
    import importlib.util
    import glob
    import numpy as np
    so = glob.glob(os.path.join(repo, "src", "nuspacesim", "simulation", "eas_optical", "zsteps.*.so"))
    if not so:
        return None
    spec = importlib.util.spec_from_file_location("zsteps", so[0])
    mod = importlib.util.module_from_spec(spec)
    spec.loader.exec_module(mod)
    rng = np.random.default_rng(11)
    f = np.float32
    for k in range(60):
        z = f(rng.uniform(0, 20))
        s = f(np.sin(rng.uniform(0.3, 1.55)))
        zdet = f(rng.choice([33.0, 525.0, 2000.0]))
        args = (z, s, f(6378.14), f(65.0), zdet, f(0.1), f(np.pi)) if k % 2 else tuple(float(x) for x in (z, s, 6378.14, 65.0, zdet, 0.1, np.pi))
        a, b = mod.zsteps(*args), fn(*args)
        if a[0].dtype != b[0].dtype or a[0].tobytes() != b[0].tobytes() or a[1].tobytes() != b[1].tobytes():
            return False
    return True


def prepare(repo):
    """build (cached by content) and install; returns a dict describing what was done"""
    src = os.path.join(repo, "src", "nuspacesim", "simulation", "eas_optical", "src", "zsteps.cpp")
    try:
        if os.environ.get("NSV_ZSTEPS_LIB") and os.path.exists(os.environ["NSV_ZSTEPS_LIB"]):
            # a parent check process already built it for this tree
            _loader().install(os.environ["NSV_ZSTEPS_LIB"])
            STATE.update(status="inherited", lib=os.environ["NSV_ZSTEPS_LIB"])
            return STATE
        if not os.path.exists(src):
            STATE.update(status="no source file: prebuilt extension in use")
            return STATE
        text = open(src, "rb").read()
        sha = hashlib.sha256(text).hexdigest()
        os.makedirs(BUILD, exist_ok=True)
        lib = os.path.join(BUILD, f"zsteps-{sha[:16]}.so")
        if not os.path.exists(lib):
            tmp = lib + f".{os.getpid()}.tmp"
            cmd = ["g++", "-O2", "-shared", "-fPIC", "-std=c++17", "-I", os.path.join(VERIF, "zshim"),
                   f'-DNSV_ZSTEPS_SRC="{src}"', os.path.join(VERIF, "zshim", "wrap.cpp"), "-o", tmp]
            p = subprocess.run(cmd, stdout=subprocess.PIPE, stderr=subprocess.STDOUT, text=True, timeout=120)
            if p.returncode != 0:
                STATE.update(status="build failed: prebuilt extension in use", detail=p.stdout[-600:], source_sha=sha)
                return STATE
            os.replace(tmp, lib)
        fn = _loader().make_function(lib)
        if sha == PINNED_SHA:
            same = _same_as_prebuilt(fn, repo)
            if same is False:
                STATE.update(status="rebuilt kernel differs from the prebuilt extension on the pinned source: prebuilt extension in use",
                             source_sha=sha)
                return STATE
            STATE.update(status="rebuilt from the pinned source, bit-identical to the prebuilt extension" if same else
                         "rebuilt from the pinned source (no prebuilt extension to compare with)", lib=lib, source_sha=sha)
        else:
            STATE.update(status="rebuilt from an EDITED zsteps.cpp", lib=lib, source_sha=sha)
        _loader().install(lib)
        os.environ["NSV_ZSTEPS_LIB"] = lib
        pp = os.environ.get("PYTHONPATH", "")
        if SITE not in pp.split(os.pathsep):
            os.environ["PYTHONPATH"] = SITE + (os.pathsep + pp if pp else "")
    except Exception as ex:      # never let the rebuild break a check: the prebuilt extension stays
        STATE.update(status=f"rebuild skipped ({ex!r}): prebuilt extension in use")
    return STATE
