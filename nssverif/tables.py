"""Export the shipped data tables for TLC (read with h5py / astropy.io.fits directly, not through NssGrid)."""
import json
import os

import numpy as np

from . import REPO, BUILD
from .f64 import bits_array

DATA = os.path.join(REPO, "src", "nuspacesim", "data")


def tau_arrays(version):
    import h5py
    out = {}
    for kind in ("cdf", "pexit"):
        with h5py.File(os.path.join(DATA, "nupyprop_tables", f"nu2tau_{kind}.{version}.h5"), "r") as f:
            data = f["__nss_grid_data__"][()]
            names = [f.attrs[f"AXIS{i}"] for i in range(data.ndim)]
            names = [n.decode() if isinstance(n, bytes) else str(n) for n in names]
            axes = {n: f["__nss_grid_axes__"][n][()] for n in names}
        out[kind] = (data, names, axes)
    return out


def export_tau(version, path=None):
    """-> path of a JSON file with the tables of one version as bit pairs (axes e, b, z)"""
    path = path or os.path.join(BUILD, f"tau_tables_{version}.json")
    src = [os.path.join(DATA, "nupyprop_tables", f"nu2tau_{k}.{version}.h5") for k in ("cdf", "pexit")]
    if os.path.exists(path) and all(os.path.getmtime(path) >= os.path.getmtime(s) for s in src):
        return path
    t = tau_arrays(version)
    short = {"log_e_nu": "e", "beta_rad": "b", "e_tau_frac": "z"}
    doc = {}
    for kind in ("cdf", "pexit"):
        data, names, axes = t[kind]
        want = ["log_e_nu", "beta_rad"] + (["e_tau_frac"] if kind == "cdf" else [])
        if names != want:
            data = np.transpose(data, [names.index(n) for n in want])
        rec = {short[n]: bits_array(np.asarray(axes[n], dtype=float)) for n in want}
        rec["data"] = bits_array(np.asarray(data, dtype=float))
        doc[kind] = rec
    os.makedirs(os.path.dirname(path), exist_ok=True)
    tmp = path + f".{os.getpid()}.tmp"
    with open(tmp, "w") as f:
        json.dump(doc, f)
    os.replace(tmp, path)
    return path


def export_atmosphere(path=None):
    """layer table of the standard atmosphere as the implementation ships it (nuspacesim.constants)"""
    from . import use_repo
    use_repo()
    from nuspacesim import constants as c
    from .f64 import bits
    path = path or os.path.join(BUILD, "atmosphere.json")
    doc = {"re": bits(c.earth_radius), "gmr": bits(c.std_atm_gmr),
           "hb": bits_array(np.asarray(c.std_atm_geopotential_height[:8], dtype=float)),
           "lb": bits_array(np.asarray(c.std_atm_lack_rate[:8], dtype=float)),
           "tb": bits_array(np.asarray(c.std_atm_temperature[:8], dtype=float)),
           "pb": bits_array(np.asarray(c.std_atm_pressure[:8], dtype=float))}
    os.makedirs(os.path.dirname(path), exist_ok=True)
    tmp = path + f".{os.getpid()}.tmp"
    with open(tmp, "w") as f:
        json.dump(doc, f)
    os.replace(tmp, path)
    return path


def cloud_map(month, version=0):
    from astropy.io import fits
    path = os.path.join(DATA, "cloud_maps", f"nss_map_CloudTopPressure_{month:02d}.v{version}.fits")
    with fits.open(path) as h:
        return np.array(h[0].data, dtype=float)


def export_cloud_map(month, path=None):
    """monthly cloud-top pressure map (read with astropy.io.fits directly) on the grids the lookup is specified on"""
    path = path or os.path.join(BUILD, f"cloud_map_{month:02d}.json")
    src = os.path.join(DATA, "cloud_maps", f"nss_map_CloudTopPressure_{month:02d}.v0.fits")
    if os.path.exists(path) and os.path.getmtime(path) >= os.path.getmtime(src):
        return path
    m = cloud_map(month)
    doc = {"lat": bits_array(np.linspace(-90, 90, m.shape[0])), "lon": bits_array(np.linspace(-180, 180, m.shape[1])),
           "p": bits_array(m)}
    os.makedirs(os.path.dirname(path), exist_ok=True)
    tmp = path + f".{os.getpid()}.tmp"
    with open(tmp, "w") as f:
        json.dump(doc, f)
    os.replace(tmp, path)
    return path
