"""Parser / printer for TLA+ values as TLC prints them (PrintT, dumps, simulation files)."""


class ParseError(Exception):
    pass


def parse(s):
    v, i = _val(s, _ws(s, 0))
    i = _ws(s, i)
    if i != len(s):
        raise ParseError(f"trailing text at {i}: {s[i:i+40]!r}")
    return v


def _ws(s, i):
    n = len(s)
    while i < n and s[i] in " \t\r\n":
        i += 1
    return i


def _val(s, i):
    n = len(s)
    if i >= n:
        raise ParseError("unexpected end")
    c = s[i]
    if s.startswith("<<", i):
        i = _ws(s, i + 2)
        out = []
        if s.startswith(">>", i):
            return tuple(out), i + 2
        while True:
            v, i = _val(s, i)
            out.append(v)
            i = _ws(s, i)
            if s.startswith(">>", i):
                return tuple(out), i + 2
            if s[i] != ",":
                raise ParseError(f"expected , or >> at {i}")
            i = _ws(s, i + 1)
    if c == "{":
        i = _ws(s, i + 1)
        out = []
        if s[i] == "}":
            return frozenset(), i + 1
        while True:
            v, i = _val(s, i)
            out.append(v)
            i = _ws(s, i)
            if s[i] == "}":
                return frozenset(_hashable(x) for x in out), i + 1
            if s[i] != ",":
                raise ParseError(f"expected , or }} at {i}")
            i = _ws(s, i + 1)
    if c == "[":
        i = _ws(s, i + 1)
        out = {}
        if s[i] == "]":
            return out, i + 1
        while True:
            j = i
            while s[j] not in " \t|":
                j += 1
            key = s[i:j]
            i = _ws(s, j)
            if not s.startswith("|->", i):
                raise ParseError(f"expected |-> at {i}")
            i = _ws(s, i + 3)
            v, i = _val(s, i)
            out[key] = v
            i = _ws(s, i)
            if s[i] == "]":
                return out, i + 1
            if s[i] != ",":
                raise ParseError(f"expected , or ] at {i}")
            i = _ws(s, i + 1)
    if c == "(":
        # function  (a :> x @@ b :> y)
        i = _ws(s, i + 1)
        out = {}
        while True:
            k, i = _val(s, i)
            i = _ws(s, i)
            if not s.startswith(":>", i):
                raise ParseError(f"expected :> at {i}")
            i = _ws(s, i + 2)
            v, i = _val(s, i)
            out[_hashable(k)] = v
            i = _ws(s, i)
            if s[i] == ")":
                return out, i + 1
            if not s.startswith("@@", i):
                raise ParseError(f"expected @@ or ) at {i}")
            i = _ws(s, i + 2)
    if c == '"':
        j = i + 1
        buf = []
        while s[j] != '"':
            if s[j] == "\\":
                j += 1
            buf.append(s[j])
            j += 1
        return "".join(buf), j + 1
    if c == "-" or c.isdigit():
        j = i + 1
        while j < n and s[j].isdigit():
            j += 1
        return int(s[i:j]), j
    if s.startswith("TRUE", i):
        return True, i + 4
    if s.startswith("FALSE", i):
        return False, i + 5
    # model value / identifier
    j = i
    while j < n and (s[j].isalnum() or s[j] in "_"):
        j += 1
    if j == i:
        raise ParseError(f"cannot parse at {i}: {s[i:i+40]!r}")
    return s[i:j], j


def _hashable(x):
    if isinstance(x, dict):
        return tuple(sorted((k, _hashable(v)) for k, v in x.items()))
    if isinstance(x, (list, tuple)):
        return tuple(_hashable(v) for v in x)
    return x


def balanced_chunks(text, opener="<<"):
    """Yield every top-level balanced <<...>> chunk of text (PrintT output may span lines)."""
    i, n = 0, len(text)
    while True:
        i = text.find(opener, i)
        if i < 0:
            return
        depth, j, instr = 0, i, False
        while j < n:
            if instr:
                if text[j] == "\\":
                    j += 1
                elif text[j] == '"':
                    instr = False
            elif text[j] == '"':
                instr = True
            elif text.startswith("<<", j):
                depth += 1
                j += 1
            elif text.startswith(">>", j):
                depth -= 1
                j += 1
                if depth == 0:
                    break
            j += 1
        yield text[i : j + 1]
        i = j + 1


def to_tla(v):
    """Python value -> TLA+ source text (ints, bools, strings, lists/tuples, dicts as records)."""
    if isinstance(v, bool):
        return "TRUE" if v else "FALSE"
    if isinstance(v, int):
        return str(v)
    if isinstance(v, str):
        return '"' + v.replace("\\", "\\\\").replace('"', '\\"') + '"'
    if isinstance(v, (list, tuple)):
        return "<<" + ", ".join(to_tla(x) for x in v) + ">>"
    if isinstance(v, (set, frozenset)):
        return "{" + ", ".join(to_tla(x) for x in sorted(v, key=repr)) + "}"
    if isinstance(v, dict):
        return "[" + ", ".join(f"{k} |-> {to_tla(x)}" for k, x in v.items()) + "]"
    raise TypeError(type(v))
