"""Process pool for running many independent simulator runs (spawn context, importable workers)."""
import multiprocessing as mp
import os
from concurrent.futures import ProcessPoolExecutor


def _init(repo, verif):
    import sys
    os.environ["VERIF_REPO"] = repo
    if verif not in sys.path:
        sys.path.insert(0, verif)
    os.environ.setdefault("OMP_NUM_THREADS", "1")


def pmap(func, items, workers=14):
    from . import REPO, VERIF
    items = list(items)
    if len(items) <= 1 or workers <= 1:
        return [func(x) for x in items]
    ctx = mp.get_context("spawn")
    with ProcessPoolExecutor(max_workers=min(workers, len(items)), mp_context=ctx, initializer=_init,
                             initargs=(REPO, VERIF)) as ex:
        return list(ex.map(func, items, chunksize=max(1, len(items) // (workers * 4))))
