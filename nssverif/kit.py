"""Per-property run bookkeeping: TLC model checks, trace validation, findings, evidence."""
import hashlib
import json
import os
import sys
import tempfile
import time
import shutil

from . import VERIF, REPO, tlc

# evidence of a run against a scratch tree (seeded / benign change experiments) must not replace the evidence for /repo
EVIDENCE = os.path.join(VERIF, "evidence") if os.path.realpath(REPO) == "/repo" else os.path.join(VERIF, "build", "evidence-scratch")
REPLAYS = os.path.join(VERIF, "build", "replay")
FINDINGS = os.path.join(VERIF, "known_findings.json")


def _load_findings(pid):
    try:
        with open(FINDINGS) as f:
            allf = json.load(f)
    except FileNotFoundError:
        return []
    return [e for e in allf.get("findings", []) if e.get("property") == pid]


def _cmp(a, op, b):
    try:
        if op == "==":
            return a == b
        if op == "!=":
            return a != b
        if op == "<":
            return a < b
        if op == "<=":
            return a <= b
        if op == ">":
            return a > b
        if op == ">=":
            return a >= b
        if op == "in":
            return a in b
        if op == "contains":
            return b in a
        if op == "isnan":
            return (a != a) == bool(b)
    except TypeError:
        return False
    raise ValueError(op)


def finding_matches(entry, clause, meta):
    m = entry.get("match", {})
    cl = m.get("clauses", "*")
    if cl != "*" and clause not in cl:
        return False
    for field, op, val in m.get("where", []):
        if field not in meta:
            return False
        if not _cmp(meta[field], op, val):
            return False
    return True


class PropertyRun:
    def __init__(self, pid, tier="quick", seed=0, level="model_checking"):
        self.pid = pid
        self.tier = tier
        self.seed = int(seed)
        self.level = level
        self.t0 = time.time()
        self.states = 0
        self.transitions = 0
        self.traces = 0
        self.evaluations = 0
        self.distinct = set()
        self.samples = []
        self.rules = []
        self.assumptions = []
        self.violations = []      # (clause, meta, source)
        self.known_hits = {}      # finding id -> count
        self.inconclusive = 0
        self.detail = {}          # free-form extra coverage
        self.models = []          # (module, cfg, states, transitions)
        self.by_kind = {}
        self.findings = _load_findings(pid)
        self.exhaustive = False
        self.extended = []        # deviations from the extended specification (beyond the listed property)

    # ---------------------------------------------------------------- spec-level
    def model_check(self, module, cfg=None, expect="ok", **kw):
        """Run TLC on a spec-level model.  expect='ok' -> must find no error."""
        r = tlc.run(module, cfg, **kw)
        self.states += r.distinct
        self.transitions += r.generated
        self.models.append({"module": module, "cfg": cfg or module + ".cfg", "distinct": r.distinct,
                            "generated": r.generated, "depth": r.depth, "wall_s": round(r.wall, 2)})
        if expect == "ok" and not r.ok:
            what = ("invariant " + ",".join(r.invariant_violated)) if r.invariant_violated else "TLC reported an error"
            self.add_violation(f"spec:{module}:{what}", {"module": module, "cfg": cfg, "tlc_tail": r.out[-3000:]},
                               source="spec")
        return r

    def prove(self, module, timeout=900):
        """Have the TLA+ proof system (tlapm) check the proofs of spec/<module>.tla: every obligation must be discharged.
        An undischarged obligation is a spec-level violation; tlapm not running at all is a machinery failure."""
        import re
        import subprocess
        t0 = time.time()
        tmp = tempfile.mkdtemp(prefix=f"nsv-{self.pid}-tlaps-")
        try:
            spec = os.path.join(os.path.dirname(os.path.dirname(os.path.abspath(__file__))), "spec")
            try:
                r = subprocess.run(["tlapm", "--threads", "8", "--cache-dir", tmp, "--cleanfp", "-I", spec,
                                    os.path.join(spec, module + ".tla")],
                                   stdout=subprocess.PIPE, stderr=subprocess.STDOUT, text=True, timeout=timeout, cwd=tmp)
            except (OSError, subprocess.TimeoutExpired) as e:
                raise tlc.MachineryError(f"tlapm {module}: {e}")
            out = r.stdout
            m = re.search(r"All (\d+) obligations? proved", out)
            f = re.search(r"(\d+)/(\d+) obligations? failed", out)
            if m:
                n, bad = int(m.group(1)), 0
            elif f:
                bad, n = int(f.group(1)), int(f.group(2))
            else:
                raise tlc.MachineryError(f"tlapm {module}: no verdict\n{out[-1500:]}")
            self.detail.setdefault("proofs", []).append({"module": module, "obligations": n, "discharged": n - bad,
                                                         "backend": "tlapm (SMT, Zenon, Isabelle, PTL)",
                                                         "wall_s": round(time.time() - t0, 2)})
            if bad:
                self.add_violation(f"spec:{module}:{bad} of {n} proof obligations not discharged",
                                   {"module": module, "tlapm_tail": out[-3000:]}, source="spec")
            return n, bad
        finally:
            shutil.rmtree(tmp, ignore_errors=True)

    # ---------------------------------------------------------------- traces
    def validate(self, module, events, name=None, cfg=None, chunks=1, env=None, timeout=900, heap="2g",
                 groups=None, count_traces=None, silent_steps=False):
        """Validate events (list of dicts; key '_m' = python-side metadata, not sent to TLC)
        against trace spec `module`.  Returns list of (clause, event) failures not explained by a
        known finding."""
        name = name or module
        if groups is not None:
            events = [e for g in groups for e in g]
        if not events:
            raise tlc.MachineryError(f"{name}: empty trace (vacuous check)")
        shape = {}
        for e in events:
            k = e.get("kind", "?")
            keys = frozenset(a for a in e if a != "_m")
            if shape.setdefault(k, keys) != keys:
                # a driver path that builds an event of this kind with other fields: TLC would stop on the missing field
                raise tlc.MachineryError(f"{name}: events of kind {k!r} do not all have the same fields: "
                                         f"{sorted(shape[k] ^ keys)} differ")
            self.by_kind[k] = self.by_kind.get(k, 0) + 1
            clean = {a: b for a, b in e.items() if a != "_m"}
            self.distinct.add(hashlib.sha1(json.dumps(clean, sort_keys=True).encode()).digest()[:8])
        self.evaluations += len(events)
        if len(self.samples) < 6:
            for e in events[:: max(1, len(events) // 2)][:2]:
                self.samples.append({"trace": name, "event": e.get("_m", {a: b for a, b in e.items() if a != "_m"})})
        if groups is not None:
            parts = [g for g in groups if g]
        else:
            chunks = max(1, min(chunks, len(events)))
            size = (len(events) + chunks - 1) // chunks
            parts = [events[c * size:(c + 1) * size] for c in range(chunks)]
            parts = [p for p in parts if p]
        tmp = tempfile.mkdtemp(prefix=f"nsv-{self.pid}-")
        jobs, spans = [], []
        try:
            for c, part in enumerate(parts):
                path = os.path.join(tmp, f"{name}.{c}.ndjson")
                with open(path, "w") as f:
                    for e in part:
                        f.write(json.dumps({a: b for a, b in e.items() if a != "_m"}, allow_nan=False) + "\n")
                ee = {"TRACE_FILE": path}
                ee.update(env or {})
                jobs.append(dict(module=module, cfg=cfg, env=ee, workers=1, timeout=timeout, heap=heap))
                spans.append((c, part))
            results = tlc.run_many(jobs)
        finally:
            shutil.rmtree(tmp, ignore_errors=True)
        fails = []
        for (off, part), r in zip(spans, results):
            self.states += r.distinct
            self.transitions += r.generated
            for tag in ("WRONGFIELDS", "INFO"):
                for item in r.printed(tag):
                    self.detail.setdefault("tlc_" + tag.lower(), []).append(repr(item[1:])[:500])
                    if tag == "WRONGFIELDS" and item[1]:
                        print(f"  TLC: reconstructed fields that disagree with the configuration: {sorted(item[1])}")
            v = r.printed("VERDICT")
            if not v:
                raise tlc.MachineryError(f"{name}: TLC printed no verdict:\n" + r.out[-3000:])
            _, n, bad = v[-1]
            if n != len(part) or (not silent_steps and r.distinct != len(part) + 1):
                raise tlc.MachineryError(f"{name}: trace not fully consumed ({r.distinct - 1}/{len(part)})\n" + r.out[-2000:])
            if (len(bad) == 0) != r.ok:
                raise tlc.MachineryError(f"{name}: verdict/postcondition mismatch:\n" + r.out[-2000:])
            for item in bad:
                clause, line = item[0], item[1]
                fails.append((clause, part[line - 1]))
        self.traces += count_traces if count_traces is not None else 1
        out = []
        for clause, ev in fails:
            if not self.add_violation(clause, ev.get("_m", {}), source=name, event=ev):
                out.append((clause, ev))
        return out

    # ---------------------------------------------------------------- verdicts
    def add_violation(self, clause, meta, source="", event=None):
        """Record a failing clause; returns True if it is explained by a known finding.  Clauses named "EXT: ..." belong to the part of
        the specification that goes beyond the listed property (CLI model, radio scaling laws): a deviation there is reported and
        recorded in the evidence, but it is not a violation of the property this check is registered for."""
        if str(clause).startswith("EXT:"):
            self.extended.append({"clause": clause, "meta": meta, "source": source})
            return True
        for f in self.findings:
            if f.get("status") == "known" and finding_matches(f, clause, meta):
                self.known_hits[f["id"]] = self.known_hits.get(f["id"], 0) + 1
                return True
        self.violations.append({"clause": clause, "meta": meta, "source": source,
                                "event": None if event is None else {a: b for a, b in event.items() if a != "_m"}})
        return False

    def note(self, **kw):
        self.detail.update(kw)

    def finish(self, rule, assumptions=(), trusted=()):
        wall = time.time() - self.t0
        os.makedirs(EVIDENCE, exist_ok=True)
        cov = {
            "states": self.states,
            "transitions": self.transitions,
            "traces_validated_against_impl": self.traces,
            "evaluations": max(self.evaluations, 1),
            "distinct_nontrivial": len(self.distinct),
            "rule": rule,
            "samples": self.samples[:8] if self.samples else [{"note": "spec-level only"}],
            "events_by_kind": self.by_kind,
            "models": self.models,
            "inconclusive": self.inconclusive,
            "known_findings_hit": self.known_hits,
            "extended_spec_deviations": self.extended[:20],
            "exhaustive": self.exhaustive,
            "trusted_base": list(trusted),
            "repo": REPO,
        }
        try:
            from . import zshim
            cov["zsteps_kernel"] = dict(zshim.STATE)
        except Exception:
            pass
        cov.update(self.detail)
        ev = {
            "property_id": self.pid,
            "tier": self.tier,
            "seed": self.seed,
            "level": self.level,
            "coverage": cov,
            "assumptions": list(assumptions),
            "wall_s": round(wall, 2),
            "violations": len(self.violations),
        }
        with open(os.path.join(EVIDENCE, f"{self.pid}.json"), "w") as f:
            json.dump(ev, f, indent=1, default=str)
        seen_ext = set()
        for x in self.extended:
            if x["clause"] not in seen_ext:
                seen_ext.add(x["clause"])
                print(f"EXTENDED-SPEC-DEVIATION: ({self.pid} check, not a violation of {self.pid}) {x['clause']}: {json.dumps(x['meta'], default=str)[:240]}")
        for f in self.findings:
            if f.get("status") == "known" and self.known_hits.get(f["id"]):
                print(f"KNOWN-FINDING: property={self.pid} {f['what']} (id={f['id']}, hits={self.known_hits[f['id']]})")
        if self.violations:
            os.makedirs(REPLAYS, exist_ok=True)
            path = os.path.join(REPLAYS, f"{self.pid}-{self.tier}-{self.seed}.json")
            with open(path, "w") as f:
                json.dump({"property": self.pid, "tier": self.tier, "seed": self.seed,
                           "violations": self.violations[:50]}, f, indent=1, default=str)
            seen = set()
            for v in self.violations[:50]:
                key = (v["source"], v["clause"])
                if key in seen:
                    continue
                seen.add(key)
                print(f"  failing clause [{v['source']}] {v['clause']}: {json.dumps(v['meta'], default=str)[:300]}")
            print(f"VIOLATION property={self.pid} replay={path}")
            return 1
        print(f"OK property={self.pid} tier={self.tier} states={self.states} transitions={self.transitions} "
              f"traces={self.traces} events={self.evaluations} wall={wall:.1f}s")
        return 0
