"""C14 - a full run is reproducible, channel-isolated and structurally complete.

spec      : NuSpaceSim.tla (FinalStructure for every configuration and linearisation, early return),
            RunMatrix.tla (product state of completed runs: (R), (I-opt), (I-rad)) + a leaky counter-model
code->spec: the run matrix enumerated by TLC (RUNBASES) is executed on compute() under several schedulers and
            channel switches; each run is one mutation trace (TraceNuSpaceSim) and one event of the run-set
            trace (TraceRuns); in the thorough tier also through the `nuspacesim run` CLI
"""
import io
import os
import shutil
import tempfile
import contextlib

import numpy as np

from nssverif import pipeline, par, tlc, use_repo
from nssverif.kit import PropertyRun

QUICK_BASES = [("Diffuse", "mono", "none", 525), ("Diffuse", "power", "map", 33), ("Diffuse", "power", "uniform", 525),
               ("Target", "mono", "uniform", 525), ("Target", "power", "none", 33), ("Target", "mono", "map", 525)]
SCHEDS = ["sync", "threads-4", "processes-2", "reversed"]


def spec_of(base, optical, radio, thrown):
    mode, spectrum, cloud, alt = base
    s = {"mode": mode, "spectrum": spectrum, "cloud": cloud, "altitude": float(alt), "optical": optical, "radio": radio,
         "thrown": thrown if mode == "Diffuse" else max(400, thrown)}
    if alt == 33:
        s["limb"] = 0.05
    return s


def _digests(sim):
    from nssverif.pipeline import col_digest, val_digest, is_config_key
    cols = list(sim.colnames)
    keys = [k for k in sim.meta.keys() if not is_config_key(k) and k != "simTime"]
    return {"cols": cols, "dig": [col_digest(sim[c]) for c in cols], "rows": len(sim) if cols else 0,
            "meta": [str(k) for k in keys], "metav": [val_digest(sim.meta[k]) for k in keys]}


def _rows(sim, spec, limit=40):
    """row events for TraceRows: per-row cross-stage consistency of the final table"""
    from nssverif.f64 import bits
    from astropy.constants import R_earth
    import astropy.units as u
    need = ("beta_rad", "log_e_nu", "tauBeta", "tauLorentz", "tauEnergy", "showerEnergy", "tauExitProb", "altDec", "lenDec")
    if sim is None or len(sim) == 0 or any(c not in sim.colnames for c in need):
        return []
    cfg = pipeline.make_config(spec)
    R = float(R_earth.to(u.km).value)
    has = "numPEs" in sim.colnames
    idx = np.linspace(0, len(sim) - 1, min(limit, len(sim))).astype(int)
    out = []
    for i in sorted(set(idx.tolist())):
        g = lambda c: bits(float(sim[c][i]))
        out.append({"kind": "row", "beta": g("beta_rad"), "loge": g("log_e_nu"), "tauBeta": g("tauBeta"), "tauLorentz": g("tauLorentz"),
                    "tauEnergy": g("tauEnergy"), "showerEnergy": g("showerEnergy"), "pexit": g("tauExitProb"), "altDec": g("altDec"),
                    "lenDec": g("lenDec"), "hasOpt": bool(has), "numPEs": g("numPEs") if has else bits(0.0),
                    "cosEff": g("costhetaChEff") if has else bits(1.0), "f": bits(cfg.simulation.tau_shower.etau_frac), "R": bits(R),
                    "_m": {"spec": spec, "row": int(i), "altDec": float(sim["altDec"][i]), "tauEnergy": float(sim["tauEnergy"][i])}})
    return out


def _child_run():
    """runs in a child interpreter (its own PYTHONHASHSEED): one compute() run, result as JSON on stdout"""
    import json
    import sys
    job = json.loads(sys.stdin.read())
    ev, d, job = _job(dict(job, hashseed=None))
    sys.stdout.write(json.dumps({"ev": ev, "d": d}, default=str) + "\n")


def _job(job):
    if job.get("cli"):
        return _cli_job(job)
    if job.get("hashseed") is not None:
        # the same seeded run in a child interpreter with another hash randomisation: nothing a run produces may depend on the iteration order of
        # a set / the hash of a string (the checks themselves run with PYTHONHASHSEED=0)
        import json
        import subprocess
        import sys
        from nssverif import VERIF, REPO
        env = dict(os.environ, PYTHONHASHSEED=str(job["hashseed"]), PYTHONPATH=VERIF, VERIF_REPO=REPO)
        r = subprocess.run([sys.executable, "-c", "from drivers import c14; c14._child_run()"], input=json.dumps(job), env=env, cwd=VERIF,
                           stdout=subprocess.PIPE, stderr=subprocess.PIPE, text=True, timeout=900)
        try:
            out = json.loads(r.stdout.strip().splitlines()[-1])
        except Exception:
            raise RuntimeError("C14 hash-seed child did not answer: " + r.stderr[-400:])
        return out["ev"], out["d"], job
    ev, sim = pipeline.run_compute(job["spec"], job["seed"], job["sched"], job.get("write", False), None, keep_table=True)
    d = _digests(sim) if sim is not None else None
    if job["sched"] == "sync":
        job = dict(job, rows=_rows(sim, job["spec"]))
    return ev, d, job


def _file_event_side(t):
    """columns (digests) and result header values of a table, for a TraceResultsFile `file` event"""
    from drivers.c16 import _val
    from nssverif.pipeline import col_digest, is_config_key
    cols = list(t.colnames)
    keys = [k for k in t.meta.keys() if not is_config_key(k) and str(k).upper() not in ("SIMTIME", "EXTNAME", "COMMENTS")]
    return {"cols": cols, "dig": [col_digest(t[c]) for c in cols], "meta": [[str(k).upper(), _val(t.meta[k], {})] for k in keys]}


def _cli_job(job):
    """the same run through the `nuspacesim run` command line; compares the file it writes with the API result"""
    use_repo()
    from click.testing import CliRunner
    from nuspacesim.apps.cli import cli
    from nuspacesim.config import create_toml, config_from_toml
    from astropy.table import Table
    import importlib
    import dask
    pipeline.quiet_progress()
    d = tempfile.mkdtemp(prefix="nsv-c14cli-")
    try:
        toml = os.path.join(d, "c.toml")
        out = os.path.join(d, "o.fits")
        create_toml(toml, pipeline.make_config(job["spec"]))
        np.random.seed(job["seed"])
        with dask.config.set(scheduler="synchronous"):
            res = CliRunner().invoke(cli, ["run", toml, "-o", out] + job.get("args", []))
        if res.exit_code != 0 or not os.path.exists(out):
            return None, None, dict(job, cli_error=str(res.exception)[:300] + res.output[-300:])
        t = Table.read(out, format="fits", astropy_native=True)
        dcli = _file_event_side(t)
        # API run on the configuration as the CLI read it
        cfg = config_from_toml(toml)
        comp = importlib.import_module("nuspacesim.compute")
        np.random.seed(job["seed"])
        with dask.config.set(scheduler="synchronous"), contextlib.redirect_stdout(io.StringIO()):
            sim = comp.compute(cfg)
        return None, (dcli, _file_event_side(sim)), job
    finally:
        shutil.rmtree(d, ignore_errors=True)


def run(tier="quick", seed=0):
    pr = PropertyRun("C14", tier, seed)
    thorough = tier == "thorough"
    r = pr.model_check("MCNuSpaceSim", "MCNuSpaceSimFresh.cfg", workers=16, deadlock=False, heap="6g", timeout=1200)
    pr.model_check("MCRunMatrix", "MCRunMatrix.cfg", workers=8)
    leaky = tlc.run("MCRunMatrix", "MCRunMatrixLeaky.cfg", workers=4)
    if leaky.ok or "InvIRad" not in leaky.invariant_violated:
        raise tlc.MachineryError("the leaky counter-model was not rejected: RunMatrix invariants are vacuous")
    allbases = sorted(r.printed("RUNBASES")[0][1])
    bases = allbases if thorough else [b for b in allbases if b in QUICK_BASES]
    if len(bases) < len(QUICK_BASES):
        raise tlc.MachineryError("quick bases not in TLC's enumeration")
    thrown = 150
    jobs = []
    seeds = [seed + 11, seed + 12, seed + 13] if thorough else [seed + 11]
    for b in bases:
        for sd in seeds:
            for sch in (SCHEDS if thorough or b in QUICK_BASES[::2] else ["sync", "threads-4"]):
                jobs.append({"spec": spec_of(b, True, True, thrown), "seed": sd, "sched": sch, "base": b})
            jobs.append({"spec": spec_of(b, True, False, thrown), "seed": sd, "sched": "sync", "base": b})
            jobs.append({"spec": spec_of(b, False, True, thrown), "seed": sd, "sched": "sync", "base": b})
            if thorough:
                jobs.append({"spec": spec_of(b, False, False, thrown), "seed": sd, "sched": "sync", "base": b})
    # a run whose shower stage is large (several 100-event partitions, high energy: long showers that reach above 30 km), under every
    # scheduler: state carried from one shower to the next on a kernel object shows up as a scheduler dependence
    heavy = {"mode": "Diffuse", "spectrum": "mono", "log_e": 9.0, "cloud": "none", "altitude": 525.0, "optical": True, "radio": False, "thrown": 450}
    for sd in seeds:
        for sch in SCHEDS:
            jobs.append({"spec": heavy, "seed": sd, "sched": sch, "base": ("Diffuse", "mono9", "none", "heavy-optical")})
    # the same at a balloon altitude with a uniform cloud (non-default detector altitude and cloud top: per-event state that only matters
    # away from the defaults)
    heavy33 = {"mode": "Diffuse", "spectrum": "mono", "log_e": 9.5, "cloud": "uniform", "cloud_alt": 2.0, "altitude": 33.0, "limb": 0.05,
               "optical": True, "radio": False, "thrown": 450}
    for sd in seeds[:1]:
        for sch in (SCHEDS if thorough else ["sync", "threads-4"]):
            jobs.append({"spec": heavy33, "seed": sd, "sched": sch, "base": ("Diffuse", "mono9.5", "uniform2", "heavy-optical-33km")})
    # no surviving trajectory: empty but valid table (both modes of reaching it)
    empty = {"mode": "Target", "thrown": 20, "obst": 600.0, "ra": 0.0, "dec": 1.5}
    for o, rd in ((True, True), (True, False), (False, True)):
        jobs.append({"spec": dict(empty, optical=o, radio=rd), "seed": seed, "sched": "sync", "base": ("Target", "mono", "none", "empty")})
    # hash randomisation: the first quick base, both channels, in child interpreters with other PYTHONHASHSEED values, next to the in-process runs
    for hs in ((1, 5, 3, 11) if thorough else (5, 3)):
        jobs.append({"spec": spec_of(QUICK_BASES[0], True, True, thrown), "seed": seeds[0], "sched": "sync", "base": QUICK_BASES[0], "hashseed": hs})
    # a power law of index EXACTLY 1 (the flat-in-log-E branch of the sampler) under two schedulers
    for sch in ("sync", "threads-4"):
        jobs.append({"spec": dict(spec_of(("Diffuse", "power", "none", 525), True, True, thrown), index=1.0), "seed": seeds[0], "sched": sch,
                     "base": ("Diffuse", "power-index-1", "none", 525)})
    # survivor counts at the bottom of the range: a single throw at a narrow annulus leaves NO or exactly ONE surviving trajectory
    # depending on the seed (one row, every enabled stage's columns and the four integral keywords of each channel - the statistical
    # uncertainty of a one-event sum is undefined, the keyword is there all the same), a few throws leave one to three
    for sd in range(10 if thorough else 6):
        for nthr in (1, 3):
            jobs.append({"spec": {"mode": "Diffuse", "thrown": nthr, "limb": float(np.radians(0.2)), "optical": True, "radio": True},
                         "seed": seed + 300 + sd, "sched": "sync", "base": ("Diffuse", "mono", "none", "tiny-%d" % nthr)})
    if thorough:
        for b in QUICK_BASES[:4]:
            jobs.append({"cli": True, "spec": spec_of(b, True, True, thrown), "seed": seed + 21, "base": b})
        jobs.append({"cli": True, "spec": spec_of(QUICK_BASES[0], True, True, thrown), "seed": seed + 22, "base": QUICK_BASES[0],
                     "args": ["-w"]})
    results = par.pmap(_job, jobs, workers=14)
    toks = pipeline.Tokens()
    cli_file_events = []
    run_events, traces = [], []
    cli_checked = 0
    for ev, d, job in results:
        if job.get("cli"):
            if d is None:
                pr.add_violation("C14 the nuspacesim run CLI completes and writes its output file", {"job": job}, source="cli")
                continue
            dcli, dapi = d
            cli_checked += 1
            tk = {}
            cli_file_events.append({"kind": "file", "cols": dapi["cols"], "colsBack": dcli["cols"],
                                    "dig": [tk.setdefault(x, len(tk) + 1) for x in dapi["dig"]],
                                    "digBack": [tk.setdefault(x, len(tk) + 1) for x in dcli["dig"]] + [0] * max(0, len(dapi["dig"]) - len(dcli["dig"])),
                                    "meta": dapi["meta"], "metaBack": dcli["meta"],
                                    "_m": {"job": job, "what": "table returned by compute() (before) vs file written by `nuspacesim run` (after)"}})
            continue
        traces.append(ev)
        if d is None:
            continue   # the run raised: reported through its own trace ("no exception unless injected")
        sp = job["spec"]
        run_events.append({
            "kind": "Run", "base": "|".join(str(x) for x in job["base"]), "seed": job["seed"], "sched": job["sched"],
            "optical": bool(sp.get("optical", True)), "radio": bool(sp.get("radio", True)),
            "cols": d["cols"], "dig": [toks.tok(x) for x in d["dig"]], "rows": d["rows"],
            "meta": d["meta"], "metav": [toks.tok(x) for x in d["metav"]],
            "_m": {"base": job["base"], "seed": job["seed"], "sched": job["sched"], "optical": sp.get("optical", True),
                   "radio": sp.get("radio", True), "rows": d["rows"]}})
    groups = [[] for _ in range(min(16, len(traces)))]
    for i, t in enumerate(traces):
        groups[i % len(groups)].extend(t)
    pr.validate("TraceNuSpaceSim", None, name="compute-runs", groups=groups)
    # group the run set by base so that the quadratic comparison stays small and files run in parallel
    by_base = {}
    for e in run_events:
        by_base.setdefault(e["base"], []).append(e)
    pr.validate("TraceRuns", None, name="run-matrix", groups=list(by_base.values()))
    if cli_file_events:
        # the file the CLI writes vs the API result: decided by TLC with the file clauses of ResultsFile.tla
        pr.validate("TraceResultsFile", cli_file_events + [{"kind": "end", "_m": {}}], name="cli-file-vs-api", chunks=1)
    # per-row cross-stage consistency of the final tables (default table version 3)
    from nssverif import tables
    rows = [e for _, _, job in results for e in (job.get("rows") or [])]
    if rows:
        pr.validate("TraceRows", rows, name="table-rows", chunks=8, env={"TABLE_FILE": tables.export_tau(3)}, heap="3g")
    # the command line in front of compute(): option precedence, conflicts, output file (Cli.tla; compute() replaced by a recorder)
    from drivers import cli_model
    rcli = pr.model_check("MCCli", workers=4)
    cli_opts = [dict(o) for o in rcli.printed("CLIOPTIONS")[0][1]]
    cli_ev = cli_model.events(cli_opts, seed, limit=None if thorough else 120)
    pr.validate("TraceCli", cli_ev, name="cli-invocations", chunks=4)
    # plot dispatch of the decorated stages (Plots.tla; recording dummy plot functions)
    from drivers import plot_model
    pr.model_check("MCPlots", workers=4, deadlock=False)
    plot_ev = plot_model.events(seed, limit=None if thorough else 300)
    pr.validate("TracePlots", plot_ev, name="plot-dispatch", chunks=2)
    pr.traces = len(traces) + len(by_base) + (1 if rows else 0) + 2
    nrows = len(rows)
    rows = [e["rows"] for e in run_events]
    pr.note(plot_dispatch_calls=len(plot_ev), cli_invocations=len(cli_ev), cli_rejected=sum(1 for e in cli_ev if e["failed"]), rows_checked_across_stages=nrows, runs=len(run_events), bases=len(by_base), schedulers=SCHEDS, rows_min=min(rows), rows_max=max(rows),
            empty_runs=sum(1 for x in rows if x == 0), cli_runs_compared=cli_checked)
    return pr.finish(
        rule="compute() runs over the TLC-enumerated configuration matrix x {sync, threads-4, processes-2, order-reversed} "
             "x channel switches x seeds; one mutation trace per run + one run-set trace per base configuration",
        assumptions=["column identity is a SHA-256 digest of dtype/shape/bytes", "header floats compared at FITS card precision"],
        trusted=["TLC", "numpy global RNG seeding"])


def replay(path):
    import json
    print(json.dumps(json.load(open(path))["violations"][:3], indent=1)[:4000])
    return 1
