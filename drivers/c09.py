"""C09 - clouds remove exactly the light emitted below the cloud top at the event site.

spec      : Clouds.tla (kernel regimes; constant models; pressure-map lookup = altitude of the map pressure at a corner of the
            containing cell, on StdAtmosphere.tla), MCClouds lattice over the sphere
code->spec: CphotAng.run(..., cloudf=const(top)) with tops placed on / one ulp off the segment altitudes; CloudTopHeight(cfg)(lat, long)
            for no-cloud / uniform / monthly maps on a lattice of the sphere and on (lat, long) produced by the geometry stage;
            maps are read by the harness with astropy.io.fits directly and exported to TLC
"""
import numpy as np

from nssverif import use_repo, par, tables
from nssverif.f64 import bits
from nssverif.kit import PropertyRun
from nssverif.pipeline import make_config


def kernel_job(job):
    use_repo()
    import warnings
    warnings.simplefilter("ignore")
    from nuspacesim.simulation.eas_optical.cphotang import CphotAng
    rng = np.random.default_rng(job["seed"])
    c = CphotAng(525.0)
    from drivers.c06 import kernels
    c32, c64 = kernels(525.0)
    ev = []
    between = []
    for _ in range(job["n"]):
        beta = float(np.radians(rng.uniform(1.0, 42.0)))
        alt = float(rng.uniform(0.0, 20.0))
        E = float(10.0 ** rng.uniform(-2.0, 2.0))
        betaE = c.dtype(beta)
        sv = np.sin(c.theta_view(betaE), dtype=c.dtype)
        zs = np.asarray(c.valid_arrays(*c.slant_depth(alt, sv), c.dtype(E * 1e8))[0], dtype=np.float64)
        if len(zs) < 3:
            continue
        d0, th0 = c.run(beta, alt, E, 0.0, 0.0, None)
        f32 = np.float32
        k = int(rng.integers(1, len(zs) - 2))
        tops = [-np.inf, float(np.nextafter(f32(zs[0]), f32(-np.inf))), zs[0], float(np.nextafter(f32(zs[0]), f32(np.inf))), zs[k],
                float(np.nextafter(f32(zs[k]), f32(np.inf))), zs[-2], float(np.nextafter(f32(zs[-2]), f32(np.inf))), zs[-1], np.inf,
                0.0, float(rng.uniform(alt, 30.0))]
        for top in tops:
            d, th = c.run(beta, alt, E, 0.1, 0.2, lambda la, lo, _t=top: np.float64(_t))
            ev.append({"kind": "kern", "top": bits(top), "zsFirst": bits(zs[0]), "zsPen": bits(zs[-2]), "d": bits(d), "th": bits(th),
                       "d0": bits(d0), "th0": bits(th0),
                       "_m": {"beta_deg": float(np.degrees(beta)), "alt": alt, "E": E, "top": float(top), "zs0": float(zs[0]),
                              "zsPen": float(zs[-2]), "d": float(d), "d0": float(d0)}})
        # "in between": cloud tops half-way between two segment altitudes (unambiguous in single and double precision); the value is
        # decided by Cherenkov.tla with its cloudTop input (TraceCherenkov)
        for kk in sorted(set([1, int(0.15 * len(zs)), int(0.4 * len(zs)), int(0.65 * len(zs)), int(0.85 * len(zs)), int(rng.integers(1, len(zs) - 2))])):
            if kk + 1 >= len(zs) - 1:
                continue
            top = 0.5 * (zs[kk] + zs[kk + 1])
            with np.errstate(all="ignore"):
                d32, a32 = c32.run(beta, alt, E, 0.1, 0.2, lambda la, lo, _t=top: np.float64(_t))
                d64, a64 = c64.run(beta, alt, E, 0.1, 0.2, lambda la, lo, _t=top: np.float64(_t))
            between.append({"kind": "k", "beta": bits(beta), "alt": bits(alt), "E100": bits(E), "top": bits(top), "zdet": bits(525.0),
                            "d32": bits(d32), "a32": bits(a32), "has64": c64.dtype == np.float64, "d64": bits(d64), "a64": bits(a64),
                            "clamped": False, "scale": bits(float(d0)), "d32ref": bits(d32), "a32ref": bits(a32),
                            "_m": {"beta_deg": float(np.degrees(beta)), "alt": alt, "E100": E, "top": float(top), "d32": float(d32), "d64": float(d64),
                                   "d_cloud_free": float(d0), "segments_below_top": int(kk + 1), "segments": int(len(zs))}})
    return "kern", ev + between


def thread_job(job):
    """the same regimes with SEVERAL events in flight on one kernel object: a batch of > 100 events (several partitions) under the
    threaded scheduler with a site-dependent cloud top (the latitude encodes the event).  The light removed from an event must be
    decided by the cloud top at ITS site, whatever the other events see: tops far below every segment (cloud-free result, bit for
    bit) alternate with tops far above (exactly zero)."""
    use_repo()
    import warnings
    warnings.simplefilter("ignore")
    import dask
    from nuspacesim.simulation.eas_optical.cphotang import CphotAng
    from nssverif.pipeline import quiet_progress
    quiet_progress()
    rng = np.random.default_rng(job["seed"])
    n = job["n"]
    beta = np.radians(rng.uniform(1.0, 42.0, n))
    alt = rng.uniform(0.0, 15.0, n)
    E = 10.0 ** rng.uniform(-1.0, 1.5, n)
    lat = np.arange(n) * 1e-3
    lon = rng.uniform(0, 6.0, n)
    choices = np.array([-np.inf, -1.0, 200.0, np.inf])
    tops = choices[(np.arange(n) * 7 + rng.integers(0, 4)) % 4]

    def cloudf(la, lo):
        return np.float64(tops[int(round(float(la) * 1000.0))])
    c = CphotAng(525.0)
    free = [c.run(beta[i], alt[i], E[i], lat[i], lon[i], None) for i in range(n)]
    ev = []
    for sched, kw in (("threads-4", {"scheduler": "threads", "num_workers": 4}), ("threads-16", {"scheduler": "threads", "num_workers": 16})):
        with dask.config.set(**kw):
            d, th = CphotAng(525.0)(beta, alt, E, lat, lon, cloudf)
        for i in range(n):
            ev.append({"kind": "kern", "top": bits(tops[i]), "zsFirst": bits(0.0), "zsPen": bits(100.0), "d": bits(d[i]), "th": bits(th[i]),
                       "d0": bits(free[i][0]), "th0": bits(free[i][1]),
                       "_m": {"batch": sched, "i": i, "beta_deg": float(np.degrees(beta[i])), "alt": float(alt[i]), "E": float(E[i]),
                              "top": float(tops[i]), "zs0": 0.0, "zsPen": 100.0, "d": float(d[i]), "d0": float(free[i][0])}})
    return "kern", ev


def eas_job(job):
    """the regimes through the stage that feeds the kernel (EAS.__call__): each event must be judged with the cloud top of ITS site also
    when events before it are skipped for an out-of-range decay altitude, and the configured cloud model object itself is the callback
    (decks at -inf, far above, +inf)"""
    use_repo()
    import warnings
    warnings.simplefilter("ignore")
    import dask
    from nuspacesim.simulation.eas_optical.eas import EAS
    from nuspacesim.simulation.atmosphere.clouds import CloudTopHeight
    from nuspacesim.config import Simulation
    from nssverif.pipeline import quiet_progress, make_config
    quiet_progress()
    rng = np.random.default_rng(job["seed"])
    n = job["n"]
    beta = np.radians(rng.uniform(2.0, 40.0, n))
    alt = rng.uniform(0.0, 12.0, n)
    alt[1::4] = rng.choice([-1.0, 25.0, 30.0], size=len(alt[1::4]))          # skipped events in between
    E = 10.0 ** rng.uniform(-0.5, 1.5, n)
    lat = np.arange(n) * 1e-3
    lon = rng.uniform(0, 6.0, n)
    ev = []
    with dask.config.set(scheduler="synchronous"):
        cfg = make_config({})
        eas = EAS(cfg)
        pe0, ce0 = eas(beta.copy(), alt.copy(), E.copy(), lat.copy(), lon.copy(), cloudf=None)
        choices = np.array([-np.inf, -1.0, 200.0, np.inf])
        tops = choices[(np.arange(n) * 5 + 1) % 4]

        def site(la, lo):
            return np.float64(tops[int(round(float(la) * 1000.0))])
        runs = [("site-dependent callback", site, tops)]
        for deck in (-np.inf, 200.0, np.inf):
            c2 = make_config({})
            c2.simulation.cloud_model = Simulation.MonoCloud(altitude=deck)
            runs.append((f"CloudTopHeight(MonoCloud({deck}))", CloudTopHeight(c2), np.full(n, deck)))
        for name, cf, tp in runs:
            try:
                pe, ce = EAS(cfg)(beta.copy(), alt.copy(), E.copy(), lat.copy(), lon.copy(), cloudf=cf)
                err = None
            except Exception as ex:
                pe = ce = np.full(n, np.nan)
                err = repr(ex)[:200]
            for i in range(n):
                if not (0.0 <= alt[i] <= 20.0):
                    continue
                ev.append({"kind": "kern", "top": bits(tp[i]), "zsFirst": bits(0.0), "zsPen": bits(100.0), "d": bits(pe[i]), "th": bits(ce[i] if tp[i] < 0 else 0.0),
                           "d0": bits(pe0[i]), "th0": bits(ce0[i]),
                           "_m": {"through": "EAS.__call__", "cloud": name, "i": i, "beta_deg": float(np.degrees(beta[i])), "alt": float(alt[i]),
                                  "E": float(E[i]), "top": float(tp[i]), "zs0": 0.0, "zsPen": 100.0, "d": float(pe[i]), "d0": float(pe0[i]), "error": err}})
    return "kern", ev


def _sphere(rng, n):
    lat = np.arcsin(rng.uniform(-1, 1, n))
    lon = rng.uniform(-np.pi, 2 * np.pi, n)        # geometry reports (-pi, pi]; [pi, 2 pi) must wrap too
    special = [(np.pi / 2, 0.0), (-np.pi / 2, 1.0), (0.0, np.pi), (0.0, -np.pi), (0.3, np.nextafter(np.pi, 0)), (0.0, 0.0),
               (np.radians(45.25), np.radians(-179.6875)), (np.radians(-0.5), np.radians(180 - 360 / 575)), (1.0, 2 * np.pi - 1e-9)]
    for i, (a, b) in enumerate(special):
        lat[i], lon[i] = a, b
    return lat, lon


def model_job(job):
    use_repo()
    from nuspacesim.config import Simulation
    from nuspacesim.simulation.atmosphere.clouds import CloudTopHeight
    from nuspacesim.simulation.geometry.region_geometry import RegionGeom
    rng = np.random.default_rng(job["seed"])
    month = job["month"]
    ev = []
    lat, lon = _sphere(rng, job["n"])
    # ground positions as the geometry stage produces them
    g = RegionGeom(make_config({"altitude": float(rng.choice([33.0, 525.0, 2000.0])), "det_lat": 0.4}))
    g.throw(rng.random((4, 120)))
    if g.event_mask.any():
        la, lo = g.find_lat_long_along_traj(np.zeros(int(g.event_mask.sum())))
        lat, lon = np.concatenate([lat, la]), np.concatenate([lon, lo])
    if month == 0:
        for model, cfgm, want in (("none", Simulation.NoCloud(), None), ("mono", Simulation.MonoCloud(altitude=3.7), 3.7),
                                  ("mono", Simulation.MonoCloud(altitude=-np.inf), -np.inf), ("mono", Simulation.MonoCloud(altitude=12.0), 12.0)):
            c = make_config({})
            c.simulation.cloud_model = cfgm
            f = CloudTopHeight(c)
            ref = float(f(0.0, 0.0))
            for i in range(0, len(lat), 3):
                v = float(f(lat[i], lon[i]))
                ev.append({"kind": "const", "model": model, "value": bits(v), "want": bits(ref if want is None else want), "ref": bits(ref),
                           "_m": {"model": model, "lat": float(lat[i]), "lon": float(lon[i]), "value": v}})
        return "const", ev
    c = make_config({"cloud": "map", "month": month})
    f = CloudTopHeight(c)
    # history: before the recorded lookups the same object is asked about EVERY cell of the map once (row-major sweep over
    # cell centres), so that anything it remembers between calls (per-cell caches, last-index shortcuts) is populated
    if job.get("sweep", True):
        la_c = np.radians(np.linspace(-90, 90, 361)[:-1] + 0.25)
        lo_c = np.radians(np.linspace(-180, 180, 576)[:-1] + 180.0 / 575)
        for a in la_c:
            for b in lo_c:
                f(a, b)
    for i in range(len(lat)):
        try:
            v = float(f(lat[i], lon[i]))
        except Exception as ex:
            v = float("nan")
        ev.append({"kind": "map", "lat": bits(lat[i]), "lon": bits(lon[i]), "value": bits(v),
                   "_m": {"month": month, "lat_deg": float(np.degrees(lat[i])), "lon_deg": float(np.degrees(lon[i])), "value": v}})
    # the lookup as the KERNEL makes it: sites a few 1e-7 deg either side of a cell edge (closer than binary32 can resolve a coordinate of
    # that size) are handed to CphotAng.run together with the model object; the cloud top the model returns INSIDE the kernel call is
    # recorded and judged against the cell that contains the site handed to the kernel
    from nuspacesim.simulation.eas_optical.cphotang import CphotAng
    kern = CphotAng(525.0)
    seen = []

    def recording(la, lo):
        v = f(la, lo)
        seen.append(float(v))
        return v
    for _ in range(job.get("kernel_sites", 24)):
        klat = int(rng.integers(20, 340))
        klon = int(rng.integers(5, 570))
        d = float(rng.choice([2e-7, 5e-7, 1.5e-6])) * float(rng.choice([-1.0, 1.0]))
        if rng.random() < 0.5:
            la_s = np.radians(-90.0 + 0.5 * klat + d)
            lo_s = np.radians(-180.0 + (360.0 / 575.0) * (klon + float(rng.uniform(0.2, 0.8))))
        else:
            la_s = np.radians(-90.0 + 0.5 * (klat + float(rng.uniform(0.2, 0.8))))
            lo_s = np.radians(-180.0 + (360.0 / 575.0) * klon + d)
        seen.clear()
        try:
            kern.run(np.radians(10.0), 2.0, 1.0, la_s, lo_s, recording)
            v = seen[0] if seen else float("nan")
        except Exception:
            v = float("nan")
        ev.append({"kind": "map", "lat": bits(float(la_s)), "lon": bits(float(lo_s)), "value": bits(v),
                   "_m": {"month": month, "lat_deg": float(np.degrees(la_s)), "lon_deg": float(np.degrees(lo_s)), "value": v, "asked_by": "CphotAng.run",
                          "offset_from_edge_deg": d}})
    return month, ev


def _dispatch(job):
    return {"kern": kernel_job, "threads": thread_job, "eas": eas_job, "model": model_job}[job["t"]](job)


def run(tier="quick", seed=0):
    pr = PropertyRun("C09", tier, seed)
    thorough = tier == "thorough"
    atm = tables.export_atmosphere()
    months = list(range(1, 13)) if thorough else [1 + seed % 12, 1 + (seed + 6) % 12, 1 + (seed + 3) % 12]
    maps = {m: tables.export_cloud_map(m) for m in months}
    pr.model_check("MCClouds", workers=8, timeout=900, heap="4g", env={"ATM_FILE": atm, "MAP_FILE": maps[months[0]]})
    jobs = [{"t": "kern", "seed": seed * 100 + j, "n": 30 if thorough else 5} for j in range(10)]
    jobs += [{"t": "threads", "seed": seed * 100 + 77 + j, "n": 330 if thorough else 230} for j in range(3 if thorough else 1)]
    jobs += [{"t": "eas", "seed": seed * 100 + 88, "n": 60 if thorough else 28}]
    jobs += [{"t": "model", "month": 0, "seed": seed, "n": 200}]
    jobs += [{"t": "model", "month": m, "seed": seed + m, "n": 3000 if thorough else 500} for m in months]
    res = par.pmap(_dispatch, jobs, workers=14)
    kern = [e for k, evs in res if k in ("kern", "const") for e in evs if e["kind"] != "k"]
    between = [e for k, evs in res if k == "kern" for e in evs if e["kind"] == "k"]
    if not thorough:
        pick = np.random.default_rng(seed).permutation(len(between))[:30]
        between = [between[i] for i in sorted(pick)]
    between.sort(key=lambda e: e["_m"]["beta_deg"])
    pr.validate("TraceCherenkov", None, name="cloud-in-between", groups=[between[i::12] for i in range(12)], silent_steps=True, timeout=3000,
                heap="2g")
    pr.validate("TraceClouds", kern, name="kernel-regimes+constant-models", chunks=4, env={"ATM_FILE": atm, "MAP_FILE": maps[months[0]]}, heap="4g")
    for m in months:
        ev = [e for k, evs in res if k == m for e in evs]
        pr.validate("TraceClouds", ev, name=f"map-{m:02d}", chunks=2 if thorough else 1, env={"ATM_FILE": atm, "MAP_FILE": maps[m]}, heap="4g")
    reg = {}
    for e in kern:
        if e["kind"] == "kern":
            t, a, b = e["_m"]["top"], e["_m"]["zs0"], e["_m"]["zsPen"]
            r = "below" if t <= a else ("above" if t > b else "between")
            reg[r] = reg.get(r, 0) + 1
    pr.note(kernel_regimes=reg, months=months, in_between_events_against_cherenkov_model=len(between))
    return pr.finish(
        rule="kernel events with cloud tops at -inf, first segment -ulp / exact / +ulp, an inner segment, penultimate segment exact / +ulp, "
             "last segment, +inf; constant models on a lattice of the sphere; monthly maps on random + special points (poles, +-180 deg, "
             "cell edges, longitudes in [pi, 2 pi)) and on ground positions produced by the geometry stage; distinct = distinct events",
        assumptions=["the 'in between' regime is decided by Cherenkov.tla with its cloudTop input, on cloud tops placed half-way between two segment "
                     "altitudes (boundary-exact tops are decided by the regime clauses)", "any corner of the containing map cell is a conforming lookup"],
        trusted=["TLC + Float64 override", "astropy.io.fits"])


def replay(path):
    import json
    print(json.dumps(json.load(open(path))["violations"][:3], indent=1)[:4000])
    return 1
