"""C02 - thrown trajectories are consistent 3-D objects for every random input (same traces and specification as C01:
see drivers/c01.py, spec/GeomDiffuse.tla, spec/TraceGeomDiffuse.tla; the C02 clauses are range / inverse-CDF of the line-of-sight length on
the closed cube, spot on the surface at that distance (explicit vectors), latitude / longitude ranges, emergence angle from explicit vectors,
keep rule, positions along the trajectory)."""
from drivers import c01


def run(tier="quick", seed=0):
    return c01.run(tier, seed, pid="C02")


replay = c01.replay
