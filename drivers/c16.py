"""C16 - a results file is self-describing and loss-free.

spec      : ResultsFile.tla (register semantics; header contains the flattened configuration; reconstructed-field invariant over the
            product state of (configuration, reconstruction) pairs) + MCResultsFile with a buggy reconstructor that must fail
code->spec: final tables of compute() runs over configuration variants and synthetic tables (2-D column, Time column, empty table)
            written exactly as apps/run.py does, read back, header cards compared with the model dump, config_from_fits run for
            every variant; the set of reconstructions is one stateful trace validated by TraceResultsFile.tla
"""
import os
import sys
import shutil
import tempfile

import numpy as np

from nssverif import use_repo, par, pipeline
from nssverif.f64 import bits
from nssverif.kit import PropertyRun
from drivers.c15 import flatten, ANGLE_FIELDS


def _val(v, toks, angle=False):
    if isinstance(v, tuple):
        v = v[0]
    # non-numeric values travel as their own (ASCII-escaped) text, so that they mean the same in every event of a trace
    if isinstance(v, (bool, np.bool_)):
        return ["s", "bool:%s" % bool(v)]
    if isinstance(v, (int, float, np.integer, np.floating)) and np.isfinite(float(v)):
        return ["a" if angle else "n", bits(float(v))]
    return ["s", ascii(str(v))[:120]]


def _fits_representable(v):
    if isinstance(v, (bool, int, np.integer)):
        return True
    if isinstance(v, (float, np.floating)):
        return bool(np.isfinite(v))
    if isinstance(v, str):
        return v.isascii() and len(v) < 40 and "\n" not in v
    return False


def flat_config(d, prefix="Config"):
    """flattened model dump, written here independently of nuspacesim.utils.misc.flatten_dict"""
    out = {}
    for k, v in d.items():
        key = prefix + " " + k
        if isinstance(v, dict):
            out.update(flat_config(v, key))
        else:
            out[key] = v
    return out


def variant_configs(rng, n):
    out = []
    for i in range(n):
        spec = {"mode": ["Diffuse", "Target"][i % 2], "spectrum": ["mono", "power"][(i // 2) % 2], "cloud": ["none", "uniform", "map"][i % 3],
                "altitude": float(rng.choice([33.0, 525.0, 1000.0])), "thrown": 60 if i % 2 == 0 else 300,
                "index": float(rng.uniform(1.2, 3.0)), "lo": 7.0, "hi": float(rng.uniform(8.0, 11.0)), "log_e": float(rng.uniform(7.5, 10.0)),
                "optical": bool(i % 5 != 4), "radio": bool(i % 7 != 6), "month": int(rng.integers(1, 13)),
                "det_lat": float(rng.uniform(-1.4, 1.4)), "det_lon": float(rng.choice([rng.uniform(0.1, 3.0), rng.uniform(-3.1, -0.05), rng.uniform(3.2, 6.2)])), "ra": float(rng.uniform(0, 6)), "dec": float(rng.uniform(-1, 1)),
                "limb": float(np.radians(rng.choice([7.0, 3.0, 12.5]))), "cher": float(np.radians(rng.choice([3.0, 1.5]))),
                "pe_thr": float(rng.choice([10.0, 4.0])), "snr_thr": float(rng.choice([5.0, 3.0]))}
        if spec["altitude"] == 33.0:
            spec["limb"] = 0.05
        # every other field of the configuration varies too, so that a field whose reconstruction depends on the file shows it
        spec["set"] = {
            "title": "run %d" % i, "detector.name": "detector-%d" % (i % 3),
            "detector.radio.low_frequency": float(rng.choice([30.0, 50.0])), "detector.radio.high_frequency": float(rng.choice([300.0, 200.0])),
            "detector.radio.nantennas": int(rng.choice([10, 4])), "detector.radio.gain": float(rng.choice([1.8, 3.0])),
            "detector.optical.telescope_effective_area": float(rng.choice([2.5, 1.0])), "detector.optical.quantum_efficiency": float(rng.choice([0.2, 0.3])),
            "simulation.tau_shower.etau_frac": float(rng.choice([0.5, 0.3])), "simulation.tau_shower.table_version": str(rng.choice(["3", "2"])),
            "simulation.ionosphere.total_electron_content": float(rng.choice([10.0, 50.0])),
            "simulation.ionosphere.total_electron_error": float(rng.choice([0.1, 0.5])),
            "simulation.max_azimuth_angle": float(np.radians(rng.choice([360.0, 180.0]))),
        }
        if i % 4 == 1:
            # unit-bearing values that print in scientific notation in the header (a longitude of sin(pi), micro-radian angles, a sub-Hz band edge)
            spec["det_lon"] = float(np.sin(np.pi))
            spec["det_lat"] = 1e-6
            spec["set"].update({"detector.radio.low_frequency": 5e-5, "simulation.max_azimuth_angle": float(np.radians(360.0)),
                                "detector.sun_moon.moon_alt_cut": 3.0e-7})
        out.append(spec)
    return out


def _job(job):
    use_repo()
    from astropy.table import Table
    from astropy.io import fits
    from nuspacesim.config import config_from_fits
    from nuspacesim.utils.misc import flatten_dict
    spec, seed = job["spec"], job["seed"]
    if spec["mode"] == "Diffuse":
        spec = dict(spec, set=dict(spec["set"], **{"detector.initial_position.latitude": spec["det_lat"],
                                                   "detector.initial_position.longitude": spec["det_lon"]}))
    ev, sim = pipeline.run_compute(spec, seed, "sync", False, None, keep_table=True)
    # run_compute builds its own config from spec: rebuild the same one here for the comparison
    events = []
    if sim is None:
        return events
    tables = [("run", sim, True)]
    d = tempfile.mkdtemp(prefix="nsv-c16-")
    try:
        for name, t, is_run in tables:
            path = os.path.join(d, name + ".fits")
            t.write(path, format="fits", overwrite=True)                 # exactly the call of apps/run.py
            back = Table.read(path, format="fits", astropy_native=True)
            toks = {}
            cols = list(t.colnames)
            keys = [k for k in t.meta.keys() if k not in ("comments",)]
            events.append({"kind": "file", "cols": cols, "colsBack": list(back.colnames),
                           "dig": [toks.setdefault(pipeline.col_digest(t[c]), len(toks) + 1) for c in cols],
                           "digBack": [toks.setdefault(pipeline.col_digest(back[c]), len(toks) + 1) if c in back.colnames else 0 for c in cols],
                           "meta": [[str(k).replace("HIERARCH ", "").upper(), _val(t.meta[k], toks)] for k in keys if _fits_representable(t.meta[k][0] if isinstance(t.meta[k], tuple) else t.meta[k])],
                           "metaBack": [[str(k).upper(), _val(back.meta[k], toks)] for k in back.meta.keys()],
                           "_m": {"spec": spec, "seed": seed, "rows": len(t), "ncols": len(cols), "table": name}})
            if is_run:
                # the configuration that produced the run is the one in the table's own metadata source: make_config(spec)
                run_cfg = pipeline.make_config(spec)
                flat = flat_config(run_cfg.model_dump())
                hdr = fits.getheader(path, 1)
                events.append({"kind": "hdr", "flat": [[k, _val(v, toks)] for k, v in flat.items() if _fits_representable(v)],
                               "header": [[k, _val(hdr[k], toks)] for k in hdr.keys() if str(k).startswith("Config")],
                               "flatkeys": list(flat.keys()),
                               "_m": {"spec": spec, "seed": seed, "nflat": len(flat),
                                      "cards_of_no_field": [k for k in hdr.keys() if str(k).startswith("Config") and k not in flat][:6]}})
                # "stored results can always be reloaded for plotting": the show-plot application on the file with every registered plot
                # requested.  The drawing itself is not the subject (matplotlib's binning fails on degenerate data: "Too many bins for
                # data range" on a 59-row balloon run): the registered plot functions are replaced by recorders, so what is judged is the
                # reload - configuration, table, and the columns every stage hands to its plots.
                import sys as _sys
                from nssverif import plots as _plots
                from click.testing import CliRunner
                from nuspacesim.apps.cli import cli
                names = set(_plots.all_names())
                called, undo = [], []
                for mod in list(_sys.modules.values()):
                    if mod is None or not getattr(mod, "__name__", "").startswith("nuspacesim"):
                        continue
                    for nm, obj in list(vars(mod).items()):
                        if callable(obj) and getattr(obj, "__name__", None) in names and nm in names:
                            def rec(*a, _n=nm, **k):
                                called.append(_n)
                            rec.__name__ = nm
                            undo.append((mod, nm, obj))
                            setattr(mod, nm, rec)
                try:
                    res = CliRunner().invoke(cli, ["show-plot", path, "--plotall"])
                finally:
                    for mod, nm, obj in undo:
                        setattr(mod, nm, obj)
                # (an empty table has no row 0 for the geometry plot's first input: nothing to plot, not judged)
                events.append({"kind": "plotload", "ok": bool(res.exit_code == 0 or len(t) == 0),
                               "_m": {"spec": spec, "seed": seed, "exit_code": res.exit_code, "exception": repr(res.exception)[:200],
                                      "optical": bool(spec.get("optical", True)), "radio": bool(spec.get("radio", True)), "rows": len(t),
                                      "plots_reached": sorted(set(called)),
                                      "where": "".join(__import__("traceback").format_exception(*res.exc_info))[-700:] if res.exit_code and res.exc_info else None}})
                try:
                    import pathlib
                    rec = config_from_fits(pathlib.Path(path) if seed % 2 else path)      # a str or a path object
                    fc, fr = dict(flatten(run_cfg)), dict(flatten(rec))
                    ang = lambda n: n.split(".")[-1] in ANGLE_FIELDS
                    events.append({"kind": "recon", "ok": True,
                                   "cfg": [[k, _val(v, toks, ang(k))] for k, v in fc.items() if v is not None],
                                   "recon": [[k, _val(v, toks, ang(k))] for k, v in fr.items() if v is not None],
                                   "_m": {"spec": spec, "seed": seed}})
                except Exception as ex:
                    events.append({"kind": "recon", "ok": False, "cfg": [], "recon": [], "_m": {"spec": spec, "seed": seed, "error": repr(ex)[:300]}})
    finally:
        shutil.rmtree(d, ignore_errors=True)
    return events


def synthetic_events():
    """tables the simulator can produce that the small runs above may not contain: 2-D column, Time column, empty table"""
    use_repo()
    from astropy.table import Table
    from astropy.time import Time, TimeDelta
    import nuspacesim.results_table as rt
    ev = []
    d = tempfile.mkdtemp(prefix="nsv-c16s-")
    rng = np.random.default_rng(5)
    try:
        cases = []
        t = rt.init(pipeline.make_config({}))
        t.add_columns([rng.random(7), rng.random((7, 27)), rng.integers(0, 9, 7)], names=["beta_rad", "EFields", "n"])
        t.meta["OMCINT"] = (1.0 / 3.0, "Optical MonteCarlo Integral")
        t.meta["ONEVPASS"] = (3, "n pass")
        cases.append(("2d", t))
        t2 = rt.init(pipeline.make_config({"mode": "Target"}))
        tm = Time("2022-06-02T01:00:00", format="isot", scale="utc") + TimeDelta(rng.uniform(0, 86400, 5), format="sec")
        t2.add_columns([rng.random(5), tm], names=["beta_rad", "times"])
        cases.append(("time", t2))
        t3 = rt.init(pipeline.make_config({"mode": "Target"}))
        t3.add_columns([np.array([]), np.array([]), np.array([])], names=["beta_rad", "theta_rad", "path_len"])
        cases.append(("empty", t3))
        # one path written, reloaded, overwritten by the results of another configuration and reloaded again (register semantics)
        from nuspacesim.config import config_from_fits
        from drivers.c15 import flatten as flat_attrs
        shared = os.path.join(d, "shared.fits")
        seq = [{"altitude": 525.0, "spectrum": "mono", "log_e": 8.25, "set": {"title": "first", "detector.name": "A", "detector.radio.nantennas": 10}},
               {"altitude": 33.0, "spectrum": "power", "index": 2.4, "lo": 7.0, "hi": 9.5, "set": {"title": "second", "detector.name": "B", "detector.radio.nantennas": 4,
                                                                                                    "detector.radio.enable": False, "simulation.ionosphere.total_electron_content": 0.0}},
               {"altitude": 1000.0, "spectrum": "mono", "log_e": 10.5, "cloud": "map", "month": 9, "set": {"title": "third", "detector.name": "C"}}]
        for k, sp in enumerate(seq):
            cfg_k = pipeline.make_config(sp)
            tk = rt.init(cfg_k)
            tk.add_columns([rng.random(3)], names=["beta_rad"])
            tk.write(shared, format="fits", overwrite=True)
            try:
                rec = config_from_fits(shared)
                fc, fr = dict(flat_attrs(cfg_k)), dict(flat_attrs(rec))
                ang = lambda n: n.split(".")[-1] in ANGLE_FIELDS
                ev.append({"kind": "recon", "ok": True, "cfg": [[a, _val(b, {}, ang(a))] for a, b in fc.items() if b is not None],
                           "recon": [[a, _val(b, {}, ang(a))] for a, b in fr.items() if b is not None],
                           "_m": {"sequence_on_one_path": k, "spec": sp}})
            except Exception as ex:
                ev.append({"kind": "recon", "ok": False, "cfg": [], "recon": [], "_m": {"sequence_on_one_path": k, "error": repr(ex)[:300]}})
            from astropy.io import fits as _fits
            hdr = _fits.getheader(shared, 1)
            flat = flat_config(cfg_k.model_dump())
            ev.append({"kind": "hdr", "flat": [[a, _val(b, {})] for a, b in flat.items() if _fits_representable(b)],
                       "header": [[a, _val(hdr[a], {})] for a in hdr.keys() if str(a).startswith("Config")], "flatkeys": list(flat.keys()),
                       "_m": {"sequence_on_one_path": k, "nflat": len(flat)}})
        # ONE configuration object edited in place between runs (an energy scan, what the CLI overrides do): every table must carry
        # the configuration as it is NOW, and reload to it
        from nuspacesim.config import Simulation
        live = pipeline.make_config({"spectrum": "mono", "log_e": 8.0})
        edits = [lambda c: None,
                 lambda c: setattr(c.simulation.spectrum, "log_nu_energy", 9.5),
                 lambda c: setattr(c.simulation, "thrown_events", 250),
                 lambda c: setattr(c.simulation, "spectrum", Simulation.PowerSpectrum(index=0.0, lower_bound=6.5, upper_bound=10.0)),
                 lambda c: setattr(c.detector.radio, "snr_threshold", 0.0),
                 lambda c: setattr(c, "title", "edited in place"),
                 lambda c: setattr(c.simulation.spectrum, "index", 2.5)]
        for k, edit in enumerate(edits):
            edit(live)
            tk = rt.init(live)
            tk.add_columns([rng.random(3)], names=["beta_rad"])
            pth = os.path.join(d, f"live{k}.fits")
            tk.write(pth, format="fits", overwrite=True)
            try:
                rec = config_from_fits(pth)
                fc, fr = dict(flat_attrs(live)), dict(flat_attrs(rec))
                ang = lambda n: n.split(".")[-1] in ANGLE_FIELDS
                ev.append({"kind": "recon", "ok": True, "cfg": [[a, _val(b, {}, ang(a))] for a, b in fc.items() if b is not None],
                           "recon": [[a, _val(b, {}, ang(a))] for a, b in fr.items() if b is not None],
                           "_m": {"config_object_edited_in_place": k}})
            except Exception as ex:
                ev.append({"kind": "recon", "ok": False, "cfg": [], "recon": [], "_m": {"config_object_edited_in_place": k, "error": repr(ex)[:300]}})
            hdr = _fits.getheader(pth, 1)
            flat = flat_config(live.model_dump())
            ev.append({"kind": "hdr", "flat": [[a, _val(b, {})] for a, b in flat.items() if _fits_representable(b)],
                       "header": [[a, _val(hdr[a], {})] for a in hdr.keys() if str(a).startswith("Config")], "flatkeys": list(flat.keys()),
                       "_m": {"config_object_edited_in_place": k, "nflat": len(flat)}})
        # the `nuspacesim run` application with overriding options: the file it writes must carry the configuration that PRODUCED the run
        # (the TOML file with the command-line overrides applied) and reload to it
        try:
            import dask
            from click.testing import CliRunner
            from nuspacesim.apps.cli import cli
            from nuspacesim.config import create_toml, config_from_toml, Simulation as _Sim
            from nssverif.pipeline import quiet_progress
            quiet_progress()
            base_cfg = pipeline.make_config({"mode": "Diffuse", "spectrum": "mono", "log_e": 8.0, "thrown": 500, "set": {"title": "cli base", "detector.name": "CLI"}})
            toml = os.path.join(d, "cli.toml")
            create_toml(toml, base_cfg)
            for k, (args, edit) in enumerate([
                    (["150", "--monospectrum", "9.5"], lambda c: (setattr(c.simulation, "thrown_events", 150), setattr(c.simulation, "spectrum", _Sim.MonoSpectrum(log_nu_energy=9.5)))),
                    (["120", "--powerspectrum", "2.5", "7.0", "10.0"], lambda c: (setattr(c.simulation, "thrown_events", 120), setattr(c.simulation, "spectrum", _Sim.PowerSpectrum(index=2.5, lower_bound=7.0, upper_bound=10.0)))),
                    (["130", "--monocloud", "3.0"], lambda c: (setattr(c.simulation, "thrown_events", 130), setattr(c.simulation, "cloud_model", _Sim.MonoCloud(altitude=3.0))))]):
                out = os.path.join(d, f"cli{k}.fits")
                with dask.config.set(scheduler="synchronous"):
                    res = CliRunner().invoke(cli, ["run", toml, "-o", out] + args)
                want = config_from_toml(toml)
                edit(want)
                meta = {"cli_run": args, "exit_code": res.exit_code, "exception": repr(res.exception)[:200]}
                if res.exit_code != 0 or not os.path.exists(out):
                    ev.append({"kind": "recon", "ok": False, "cfg": [], "recon": [], "_m": meta})
                    continue
                hdr = _fits.getheader(out, 1)
                flat = flat_config(want.model_dump())
                ev.append({"kind": "hdr", "flat": [[a, _val(b, {})] for a, b in flat.items() if _fits_representable(b)],
                           "header": [[a, _val(hdr[a], {})] for a in hdr.keys() if str(a).startswith("Config")], "flatkeys": list(flat.keys()),
                           "_m": dict(meta, nflat=len(flat))})
                try:
                    rec = config_from_fits(out)
                    fc, fr = dict(flat_attrs(want)), dict(flat_attrs(rec))
                    ang = lambda n: n.split(".")[-1] in ANGLE_FIELDS
                    ev.append({"kind": "recon", "ok": True, "cfg": [[a, _val(b, {}, ang(a))] for a, b in fc.items() if b is not None],
                               "recon": [[a, _val(b, {}, ang(a))] for a, b in fr.items() if b is not None], "_m": meta})
                except Exception as ex:
                    ev.append({"kind": "recon", "ok": False, "cfg": [], "recon": [], "_m": dict(meta, error=repr(ex)[:300])})
            # Target mode through the application (a Time column): the file must hold, bit for bit, the table compute() returns for the seed
            tcfg = pipeline.make_config({"mode": "Target", "thrown": 210, "optical": False, "set": {"title": "cli target"}})
            ttoml = os.path.join(d, "clit.toml")
            create_toml(ttoml, tcfg)
            tout = os.path.join(d, "clit.fits")
            np.random.seed(4242)
            with dask.config.set(scheduler="synchronous"):
                res = CliRunner().invoke(cli, ["run", ttoml, "-o", tout])
            import importlib, io, contextlib
            comp = importlib.import_module("nuspacesim.compute")
            comp = comp if hasattr(comp, "compute") and callable(getattr(comp, "compute")) and not callable(comp) else sys.modules["nuspacesim.compute"]
            np.random.seed(4242)
            with dask.config.set(scheduler="synchronous"), contextlib.redirect_stdout(io.StringIO()):
                tsim = comp.compute(config_from_toml(ttoml), verbose=False)
            if res.exit_code == 0 and os.path.exists(tout):
                tback = Table.read(tout, format="fits", astropy_native=True)
                toks = {}
                cols = list(tsim.colnames)
                ev.append({"kind": "file", "cols": cols, "colsBack": list(tback.colnames),
                           "dig": [toks.setdefault(pipeline.col_digest(tsim[c]), len(toks) + 1) for c in cols],
                           "digBack": [toks.setdefault(pipeline.col_digest(tback[c]), len(toks) + 1) if c in tback.colnames else 0 for c in cols],
                           "meta": [], "metaBack": [],
                           "_m": {"table": "file written by `nuspacesim run` (Target mode) vs the table compute() returns for the same seed", "rows": len(tsim)}})
            else:
                ev.append({"kind": "recon", "ok": False, "cfg": [], "recon": [], "_m": {"cli_run": "target", "exit_code": res.exit_code, "exception": repr(res.exception)[:200]}})
        except Exception as ex:
            ev.append({"kind": "recon", "ok": False, "cfg": [], "recon": [], "_m": {"cli_run": "setup failed", "error": repr(ex)[:300]}})
        for name, t in cases:
            path = os.path.join(d, name + ".fits")
            t.write(path, format="fits", overwrite=True)
            back = Table.read(path, format="fits", astropy_native=True)
            toks = {}
            cols = list(t.colnames)
            ev.append({"kind": "file", "cols": cols, "colsBack": list(back.colnames),
                       "dig": [toks.setdefault(pipeline.col_digest(t[c]), len(toks) + 1) for c in cols],
                       "digBack": [toks.setdefault(pipeline.col_digest(back[c]), len(toks) + 1) if c in back.colnames else 0 for c in cols],
                       "meta": [[str(k).replace("HIERARCH ", "").upper(), _val(t.meta[k], toks)] for k in t.meta.keys()
                                if _fits_representable(t.meta[k][0] if isinstance(t.meta[k], tuple) else t.meta[k])],
                       "metaBack": [[str(k).upper(), _val(back.meta[k], toks)] for k in back.meta.keys()],
                       "_m": {"table": "synthetic " + name, "rows": len(t), "ncols": len(cols)}})
    finally:
        shutil.rmtree(d, ignore_errors=True)
    return ev


def run(tier="quick", seed=0):
    from nssverif import tlc
    pr = PropertyRun("C16", tier, seed)
    thorough = tier == "thorough"
    pr.model_check("GridFile", workers=4)
    pr.model_check("MCResultsFile", workers=4)
    bug = tlc.run("MCResultsFile", "MCResultsFileBuggy.cfg", workers=2)
    if bug.ok:
        raise tlc.MachineryError("the buggy reconstructor was not rejected: ReconAgrees is vacuous")
    rng = np.random.default_rng(seed)
    specs = variant_configs(rng, 84 if thorough else 14)
    # every channel combination and spectrum type with enough rows for the plots (reload for plotting)
    base = [s for s in specs if s["mode"] == "Diffuse"][0]
    for o, r_, sp in ((False, True, "mono"), (True, False, "power"), (False, True, "power")):
        specs.append(dict(base, optical=o, radio=r_, spectrum=sp, thrown=300, altitude=525.0, limb=float(np.radians(7.0))))
    res = par.pmap(_job, [{"spec": s, "seed": seed * 100 + i} for i, s in enumerate(specs)], workers=14)
    ev = [e for r in res for e in r] + synthetic_events()
    ev.append({"kind": "end", "_m": {"note": "reconstructed-field invariant over all reconstructions"}})
    pr.validate("TraceResultsFile", ev, name="results-files", chunks=1, heap="3g", timeout=1500)
    pr.note(runs=len(specs), events_by_kind_detail={k: sum(1 for e in ev if e["kind"] == k) for k in ("file", "hdr", "recon")})
    return pr.finish(
        rule="final tables of compute() runs over configuration variants (mode x spectrum x cloud x altitude x channel switches x detector position) "
             "and synthetic tables (2-D column, Time column, empty table) written with Table.write(format='fits', overwrite=True) and read back; "
             "HIERARCH Config cards vs model dump; config_from_fits for every variant; distinct = distinct events",
        assumptions=["header floats compared at FITS card precision (astropy truncates str(value) to 20 characters)",
                     "values FITS cannot represent (non-finite numbers, non-ASCII / long strings) are outside the quantifier"],
        trusted=["TLC + Float64 override", "astropy FITS reader"])


def replay(path):
    import json
    print(json.dumps(json.load(open(path))["violations"][:3], indent=1)[:4000])
    return 1
