"""C11 - every per-event stage is a pure, order-independent function of its inputs.

spec      : StageHistory.tla (stateless-service model; its state space IS the set of call histories) and
            MaskScatter.tla (mask / compress / evaluate / scatter in buffer chunks; two bug variants must fail)
spec->code: TLC's histories (ids 1..3, batches <= 3, <= 3 calls) are replayed on one object of every stage,
            ids mapped to concrete events of a pool with boundary classes; plus hand-built long histories
            around the 8192-element iterator buffer
code->spec: each replay is a trace validated by TLC against StageHistory.tla (TraceStageHistory.tla)
"""
import os
import re
import shutil
import tempfile

import numpy as np

from nssverif import par, tlc, tlaval
from nssverif.kit import PropertyRun

CHEAP_LONG = {"Taus.tau_exit_prob[table 1]", "RegionGeom.throw", "RegionGeom.__call__", "Spectra.__call__", "Taus.tau_energy", "Taus.tau_exit_prob",
              "Taus.__call__", "grid_cdf_sampler", "vec_1d_interp", "EAS.altDec", "EASRadio.__call__"}


def histories_from_tlc(pr):
    tmp = tempfile.mkdtemp(prefix="nsv-c11-")
    dump = os.path.join(tmp, "sh")
    try:
        pr.model_check("StageHistory", workers=1, args=["-dump", dump])
        txt = open(dump + ".dump").read()
    finally:
        shutil.rmtree(tmp, ignore_errors=True)
    hs = set()
    for m in re.finditer(r"hist = (<<.*?>>)\n", txt):
        h = tlaval.parse(m.group(1))
        if h:
            hs.add(h)
    return sorted(hs)


def _stage_job(job):
    from nssverif import stages
    name, hists, seed, longs = job["stage"], job["hists"], job["seed"], job["longs"]
    st = stages.BY_NAME[name](seed=seed)
    rng = np.random.default_rng(seed + 1)
    toks = {}
    events = [{"kind": "Stage", "name": name}]
    ncalls = 0

    def tok(d):
        return toks.setdefault(d, len(toks) + 1)

    def do(idx, plot=False):
        nonlocal ncalls
        try:
            outs, intact = st.call(np.asarray(idx, dtype=int), plot=True) if plot else st.call(np.asarray(idx, dtype=int))
            outs = [tok(d) for d in outs]
            err = None
        except Exception as ex:          # a stage that raises on a legal batch: no outputs
            outs, intact, err = [], True, repr(ex)[:200]
        ncalls += 1
        events.append({"kind": "Call", "ids": [int(i) + 1 for i in idx], "outs": outs, "intact": bool(intact),
                       "_m": {"stage": name, "len": len(idx), "ids_head": [int(i) for i in idx[:8]], "error": err, "plots_requested": bool(plot),
                              "intact": bool(intact)}})

    # the FIRST call on the fresh object sees the whole pool: whatever an object sets up lazily on first use (interpolators built before a
    # table is floored, caches) must answer like every later call
    do(list(range(st.n)))
    for h in hists:
        # ids 1..3 of the TLC history -> three distinct pool events (the first pool entries are boundary classes)
        pick = rng.choice(st.n, size=3, replace=False)
        if rng.random() < 0.35:
            pick[0] = rng.integers(0, 8)
        for batch in h:
            do([pick[i - 1] for i in batch])
    # single-event batches over the whole pool, then the whole pool, reversed, split at every point
    for i in range(st.n):
        do([i])
    allidx = list(range(st.n))
    do(allidx)
    if st.plots:
        # the same batch with every registered plot requested (non-interactive backend): the plot functions get the very arrays
        # the stage returns - the returned values and the inputs must be what they are without plots
        # (without the first eight pool entries: boundary classes such as angles above the table, which no run plots)
        do(allidx[8:], plot=True)
        do(allidx[8:])
    do(allidx[::-1])
    # "splitting a batch at ANY point": every cut for the cheap stages (so every piece length 1 .. n-1 occurs, e.g. a piece of exactly as
    # many events as the random-number array has rows), a spread of cuts for the expensive ones
    cuts = range(1, st.n) if st.cost < 3 else (1, 2, 4, st.n // 3, st.n - 4, st.n - 1)
    for cut in cuts:
        do(allidx[:cut])
        do(allidx[cut:])
    for n in longs:
        # tiled ids with distinct neighbours across the nditer buffer boundary (8192)
        idx = (np.arange(n) * 7 + (np.arange(n) // 8192) * 3) % st.n
        do(idx)
        do(idx[::-1])
    return events, ncalls


def run(tier="quick", seed=0):
    from nssverif import stages
    pr = PropertyRun("C11", tier, seed)
    thorough = tier == "thorough"
    hists = histories_from_tlc(pr)
    pr.model_check("MaskScatter", "MaskScatter_ok.cfg", workers=8)
    for bug in ("BugUncompressedU", "BugWrongMask"):
        r = tlc.run("MaskScatter", f"MaskScatter_{bug}.cfg", workers=4)
        if r.ok:
            raise tlc.MachineryError(f"MaskScatter variant {bug} was not rejected (vacuous invariant)")
    rng = np.random.default_rng(seed)
    jobs = []
    for cls in stages.ALL:
        budget = (12000 if thorough else 200) // (1 if cls.cost < 3 else (3 if cls.cost < 10 else (10 if thorough else 8)))
        sel = [hists[i] for i in rng.choice(len(hists), size=min(budget, len(hists)), replace=False)]
        longs = [8191, 8192, 8193, 20000, 70001] if cls.name in CHEAP_LONG else []   # 70001: above 2**16, not a multiple of any block size
        if cls.name == "EASRadio.__call__" and not thorough:
            longs = [8193]
        if cls.name == "EAS.__call__[threads-4]":
            longs = [330] if thorough else [230]       # several 100-event partitions evaluated concurrently
            sel = sel[: max(10, len(sel) // 3)]
        jobs.append({"stage": cls.name, "hists": sel, "seed": seed + 3, "longs": longs})
    res = par.pmap(_stage_job, jobs, workers=14)
    groups = [ev for ev, _ in res]
    pr.validate("TraceStageHistory", None, name="stage-histories", groups=groups, timeout=1500, heap="4g")
    pr.traces = len(groups)
    pr.note(histories_in_model=len(hists), calls_per_stage={j["stage"]: n for j, (_, n) in zip(jobs, res)})
    return pr.finish(
        rule="call histories on one object per stage: TLC-enumerated histories (ids 1..3 -> pool events incl. boundary classes), "
             "single-event batches, full pool / reversed / split, tiled batches of 8191/8192/8193/20000; distinct = distinct events",
        assumptions=["fixed random numbers: explicit u where the API offers it, otherwise an event-keyed np.random shim",
                     "per-position output identity by bitwise digest of all public per-event outputs"],
        trusted=["TLC"])


def replay(path):
    import json
    print(json.dumps(json.load(open(path))["violations"][:3], indent=1)[:4000])
    return 1
