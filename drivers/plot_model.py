"""Plot dispatch (utils/decorators.nss_result_plot, nss_result_plot_from_file) driven along the forms of Plots.tla with recording
dummy plot functions.  Extended specification: EXT clauses of TracePlots.tla."""
import itertools

import numpy as np

from nssverif import use_repo


def events(seed=0, limit=None):
    use_repo()
    from nuspacesim.utils import decorators
    from nuspacesim.utils.plot_function_registry import registry
    rng = np.random.default_rng(seed)
    names = ["a", "b", "c"]
    calls = []

    def mk(n):
        def f(inputs, results):
            calls.append((n, inputs, results))
        f.__name__ = "nsv_plot_" + n
        return f

    regs = [()] + [p for k in (1, 2, 3) for p in itertools.permutations(names, k)]
    forms = []
    forms.append(("none", ()))
    for n in names:
        forms.append(("str", (n,)))
        forms.append(("callable", (n,)))
    for k in (0, 1, 2, 3):
        for t in itertools.product(names, repeat=k):
            forms.append(("strs", t))
            if k:
                forms.append(("callables", t))
    forms.append(("mixed", ()))
    combos = [(r, f) for r in regs for f in forms]
    if limit and len(combos) > limit:
        idx = rng.choice(len(combos), size=limit, replace=False)
        combos = [combos[i] for i in sorted(idx)]
    ev = []
    for reg, (form, fn) in combos:
        pfs = [mk(n) for n in reg]
        value = (np.arange(3.0), np.arange(3.0) * 2)
        keep = [v.copy() for v in value]

        @decorators.nss_result_plot(*pfs)
        def stage(x, y):
            return value

        userfs = {n: mk("user_" + n) for n in names}
        if form == "none":
            arg = None
        elif form == "str":
            arg = "nsv_plot_" + fn[0]
        elif form == "callable":
            arg = userfs[fn[0]]
        elif form == "strs":
            arg = ["nsv_plot_" + n for n in fn]
        elif form == "callables":
            arg = [userfs[n] for n in fn]
        else:
            arg = ["nsv_plot_a", userfs["b"]]
        del calls[:]
        err = None
        try:
            out = stage(11, 22, plot=arg)
        except Exception as ex:
            out, err = None, repr(ex)[:200]
        called = [c[0].replace("user_", "") for c in calls]
        args_ok = all(c[1] == (11, 22) and c[2] is value for c in calls)
        value_ok = err is None and out is value and all(np.array_equal(a, b) for a, b in zip(out, keep))
        ev.append({"kind": "plot", "registered": list(reg), "form": form, "names": list(fn), "called": called,
                   "argsOk": bool(args_ok), "valueOk": bool(value_ok),
                   "inRegistry": all(("nsv_plot_" + n) in registry for n in reg),
                   "_m": {"registered": list(reg), "form": form, "names": list(fn), "called": called, "error": err}})
    return ev
