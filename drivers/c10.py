"""C10 - batch shower evaluation is independent of the parallel schedule.

spec      : Batch.tla (MCBatch small + real constants), invariants + liveness by TLC
spec->code: every maximal behaviour of the replay instances is stepped through the real
            CphotAng.__call__ by a scripted dask scheduler
code->spec: executions under dask's own schedulers (tracing callback) and under the scripted
            scheduler are validated against Batch.tla by TraceBatch.tla
"""
import hashlib
import itertools
import os
import tempfile
import time
import warnings

import numpy as np

from nssverif import use_repo, tlc, BUILD, SPEC
from nssverif.kit import PropertyRun
from nssverif import daskkit, dotgraph

warnings.simplefilter("ignore")


class InjectedFault(Exception):
    pass


class Cloud:
    """cloudf callback: raises for the events whose latitude encodes an index in `fail` (1-based); otherwise returns an
    event-dependent cloud top (mostly none, sometimes a finite altitude, NaN or +inf: whatever the callback returns, the
    batch must agree with one-at-a-time evaluation under the same callback); optionally sleeps a schedule-dependent
    number of microseconds to shake thread interleavings."""

    def __init__(self, fail=(), shake=0):
        self.fail = frozenset([fail] if isinstance(fail, int) else fail) - {0}
        self.shake = shake

    def __call__(self, lat, long):
        i = int(round(float(lat) * 1000.0)) + 1
        if self.shake:
            time.sleep(((i * 2654435761 + self.shake) % 97) * 2e-6)
        if i in self.fail:
            raise InjectedFault(f"event {i}")
        r = (i * 7919) % 23
        if r == 0:
            return float("nan")
        if r == 1:
            return np.inf
        if r in (2, 3):
            return 1.0 + 0.5 * r
        return -np.inf


def standin_run(self, betaE, alt, Eshow100PeV, lat, long, cloudf=None):
    """cheap pure injective stand-in for the kernel (keeps the cloudf call for fault injection)"""
    if cloudf:
        cloudf(lat, long)
    return np.float64(betaE * 1000.0 + alt), np.float32(Eshow100PeV)


def make_inputs(n, seed):
    rng = np.random.default_rng(seed)
    beta = np.radians(rng.uniform(1.0, 42.0, n))
    alt = rng.uniform(0.0, 20.0, n)
    E = 10.0 ** rng.uniform(-2.0, 1.5, n)
    # neighbours that nearly / exactly coincide in one or all coordinates: state carried over from the
    # previous event of a partition (memoisation keyed too coarsely, reused buffers) shows up here
    for i in range(1, n):
        if i % 5 == 1:
            beta[i] = beta[i - 1] + 1e-7
        elif i % 5 == 2:
            alt[i] = alt[i - 1]
            E[i] = E[i - 1]
        elif i % 10 == 3:
            beta[i], alt[i], E[i] = beta[i - 1], alt[i - 1], E[i - 1]
    lat = np.arange(n) * 1e-3          # encodes the event index for the fault injector
    lon = rng.uniform(0, 6.28, n)
    return beta, alt, E, lat, lon


def _key(d, c):
    return np.float64(d).tobytes() + np.float64(c).tobytes()


def kernel_digest(obj):
    h = hashlib.sha256()
    for k in sorted(obj.__dict__):
        v = obj.__dict__[k]
        h.update(k.encode())
        if isinstance(v, np.ndarray):
            h.update(str(v.dtype).encode() + str(v.shape).encode() + v.tobytes())
        elif hasattr(v, "coef"):
            h.update(np.asarray(v.coef).tobytes())
        else:
            h.update(repr(v).encode())
    return h.hexdigest()


class Oracle:
    """one-at-a-time evaluation of the same events, each on a fresh kernel object"""

    def __init__(self, CphotAng, inputs, det_alt=525.0, cloud=None):
        beta, alt, E, lat, lon = inputs
        cloud = cloud if cloud is not None else Cloud()
        self.keys = []
        self.raises = set()          # events whose one-at-a-time evaluation raises (or returns no result)
        for i in range(len(beta)):
            c = CphotAng(det_alt)
            try:
                # one at a time = the per-event function on the event's own values, each in the type its column gives it (what a
                # batch of the pinned code hands to run()); single-event batches are executions of their own (run())
                d, a = c.run(beta[i], alt[i], E[i], lat[i], lon[i], cloud)
                self.keys.append(_key(d, a))
            except Exception:
                self.raises.add(i + 1)
                self.keys.append(b"<raises %d>" % i)
        self.index = {}
        for i, k in enumerate(self.keys):
            self.index.setdefault(k, i + 1)

    def ids(self, pairs, offset=0):
        out = []
        for j, (d, c) in enumerate(pairs):
            k = _key(d, c)
            pos = offset + j
            if pos < len(self.keys) and self.keys[pos] == k:
                out.append(pos + 1)
            else:
                out.append(self.index.get(k, 0))
        return out


def pairs_of(r):
    """the (photon density, angle) results inside a partition result, in order, whatever container the implementation wraps them
    in: [(d, a), ...] (the pinned code), (offset, [(d, a), ...]), arrays of shape (k, 2), ...  A result pair is a 2-sequence of
    real scalars; other scalars (offsets, counts) are skipped."""
    def scalar(x):
        return isinstance(x, (float, int, np.floating, np.integer)) and not isinstance(x, bool) or (isinstance(x, np.ndarray) and x.ndim == 0)

    out = []

    def walk(x):
        if isinstance(x, np.ndarray) and x.ndim == 2 and x.shape[1] == 2:
            out.extend((row[0], row[1]) for row in x)
        elif isinstance(x, (list, tuple, np.ndarray)):
            if len(x) == 2 and scalar(x[0]) and scalar(x[1]):
                out.append((x[0], x[1]))
            else:
                for y in x:
                    walk(y)
    walk(r)
    return out


LENS = {}     # (kernel stand-in?, n, forced partition size) -> segmentation observed in an execution where every partition finished


def infer_lens(n, log, hint=None):
    """the consecutive segmentation the code used: lengths of the finished partitions as observed; a partition that did not finish
    (failure, or not started after one) gets the length it had in a clean execution of the same batch (`hint`).  None if the
    observations do not add up to a segmentation of n."""
    P = log.nparts or 1
    lens = {p: len(pairs_of(r)) for k, p, r in log.events if k == "Finish"}
    unknown = [p for p in range(P) if p not in lens]
    if unknown:
        if hint is None or len(hint) != P:
            return None
        for p in unknown:
            lens[p] = hint[p]
    out = [int(lens[p]) for p in range(P)]
    if sum(out) != n or any(x <= 0 for x in out):
        return None
    return out


def execute(CphotAng, inputs, oracle, mode, fail=0, W=1, steps=None, order=None, shake=0, psize_override=None,
            det_alt=525.0, obj=None, _probe=False, cloud=None, force_opaque=False):
    """Run one batch and return its trace (list of TraceBatch events)."""
    import dask.bag as db
    beta, alt, E, lat, lon = inputs
    n = len(beta)
    obj = obj if obj is not None else CphotAng(det_alt)      # obj given: a kernel object that has already evaluated batches
    before = kernel_digest(obj)
    log = daskkit.ExecLog()
    cloud = cloud if cloud is not None else Cloud(fail, shake)
    orig_from_sequence = db.from_sequence
    if psize_override:
        def forced(seq, partition_size=None, npartitions=None):
            return orig_from_sequence(seq, partition_size=psize_override)
        db.from_sequence = forced
    result, raised = None, None
    try:
        if mode == "scripted":
            ctx = __import__("dask").config.set(scheduler=daskkit.scripted_get(steps, log))
            with ctx:
                result = obj(beta, alt, E, lat, lon, cloud)
        elif mode == "ordered":
            ctx = __import__("dask").config.set(scheduler=daskkit.ordered_get(order, log))
            with ctx:
                result = obj(beta, alt, E, lat, lon, cloud)
        else:
            with daskkit.scheduler_ctx(mode, W):
                with daskkit.TraceCallback(log):
                    result = obj(beta, alt, E, lat, lon, cloud)
    except InjectedFault as ex:
        raised = ex
    except Exception as ex:      # any other exception out of the batch call
        raised = ex
    finally:
        db.from_sequence = orig_from_sequence
    after = kernel_digest(obj)
    # ---- project to TraceBatch events
    direct = n > 0 and log.nparts is None
    if direct:
        # no task graph was handed to a scheduler: the batch was evaluated in the calling thread (an implementation may do that for
        # any batch it likes - C10 speaks about results, not about dask).  In the model this is ONE partition holding all events,
        # taken and finished (or failed) by the caller.
        log.nparts = 1
        log.add("Start", 0)
        if raised is None:
            d0, a0 = np.atleast_1d(result[0]), np.atleast_1d(result[1])
            log.add("Finish", 0, list(zip(d0, a0)) if len(d0) == len(a0) else [])
        else:
            log.add("Fail", 0)
    lkey = (CphotAng.run is standin_run, n, psize_override, det_alt)
    if direct or n == 0:
        lens = [n] if n else []
    else:
        lens = infer_lens(n, log, LENS.get(lkey))
        if lens is None and lkey not in LENS and not _probe:
            # learn the segmentation from a clean execution of the same batch (the cut points do not depend on failures)
            execute(CphotAng, inputs, oracle, "ordered", 0, 1, order=[], psize_override=psize_override, det_alt=det_alt, _probe=True, cloud=cloud)
            lens = infer_lens(n, log, LENS.get(lkey))
        if lens is not None and raised is None and lkey not in LENS:
            LENS[lkey] = lens
    opaque = lens is None or force_opaque
    if opaque:
        # the partition results could not be read as result pairs that add up to the batch: the partition-level clauses of the model
        # are skipped for this execution (one partition = the whole call), the outcome clauses - what C10 states - are judged
        lens = [n]
    offs = [sum(lens[:p]) for p in range(len(lens))]
    # dask's multi-process scheduler hands tasks out in batches of `chunksize` (default 6) per worker, so
    # the number of partitions taken and not yet finished is bounded by workers x 6, not by workers
    cap = int(W) * 6 if mode == "processes" else int(W)
    failset = sorted((set([fail] if isinstance(fail, int) else fail) - {0}) | set(oracle.raises))
    ev = [{"kind": "Begin", "N": n, "Lens": [int(x) for x in lens], "W": cap, "Fail": [int(x) for x in failset]}]
    if opaque:
        ev.append({"kind": "Start", "p": 1})
        if raised is None:
            d0, a0 = np.atleast_1d(result[0]), np.atleast_1d(result[1])
            ev.append({"kind": "Finish", "p": 1, "ids": oracle.ids(list(zip(d0, a0))) if len(d0) == len(a0) else [0]})
        else:
            ev.append({"kind": "Fail", "p": 1})
    for k, p, r in ([] if opaque else log.events):
        if k == "Start":
            ev.append({"kind": "Start", "p": p + 1})
        elif k == "Finish":
            ev.append({"kind": "Finish", "p": p + 1, "ids": oracle.ids(pairs_of(r), offs[p] if p < len(offs) else 0)})
        elif k == "Fail":
            ev.append({"kind": "Fail", "p": p + 1})
        elif k == "Errored":
            ev.append({"kind": "Errored"})
    if raised is None:
        d, a = result
        d, a = np.atleast_1d(d), np.atleast_1d(a)
        if len(d) != len(a):
            ids = [0] * max(len(d), len(a))
        else:
            ids = oracle.ids(list(zip(d, a)))
        ev.append({"kind": "Return", "ids": ids})
    else:
        ev.append({"kind": "Raised", "exc": type(raised).__name__})
    ev.append({"kind": "Kernel", "same": before == after})
    ev.append({"kind": "End", "raised": raised is not None})
    meta = {"mode": mode, "N": n, "W": W, "Fail": failset, "steps": steps, "order": order, "psize_override": psize_override, "direct": direct, "opaque": opaque, "lens": lens[:12],
            "raised": None if raised is None else repr(raised)[:200]}
    for e in ev:
        e["_m"] = dict(meta, kind=e["kind"], p=e.get("p"))
    return ev


def behaviours_from_tlc(pr):
    """dump the state graph of the replay instances and turn every maximal path into a script"""
    tmp = tempfile.mkdtemp(prefix="nsv-c10-")
    dot = os.path.join(tmp, "batch.dot")
    r = pr.model_check("MCBatch", "MCBatchReplay.cfg", workers=1, deadlock=False, args=["-dump", "dot,actionlabels", dot])
    nodes, edges, init = dotgraph.load(dot)
    paths = dotgraph.maximal_paths(nodes, edges, init)
    scripts = set()
    for path in paths:
        cfg = nodes[path[0]]["cfg"]
        steps = []
        for a, b in zip(path, path[1:]):
            sa, sb = nodes[a]["st"], nodes[b]["st"]
            for p, (x, y) in enumerate(zip(sa, sb)):
                if x != y:
                    steps.append(({"running": "Start", "done": "Finish", "failed": "Fail"}[y], p))
        # a sequential replay stops at the failure
        if any(k == "Fail" for k, _ in steps):
            cut = [i for i, (k, _) in enumerate(steps) if k == "Fail"][0]
            steps = steps[:cut + 1]
        scripts.add(((cfg["N"], cfg["PSize"], cfg["W"], tuple(sorted(cfg["Fail"]))), tuple(steps)))
    import shutil
    shutil.rmtree(tmp, ignore_errors=True)
    return sorted(scripts), len(paths)


def run(tier="quick", seed=0):
    use_repo()
    from nuspacesim.simulation.eas_optical import cphotang
    CphotAng = cphotang.CphotAng
    from nssverif.pipeline import quiet_progress
    quiet_progress()
    pr = PropertyRun("C10", tier, seed)
    thorough = tier == "thorough"

    # ---- 1. spec level
    pr.model_check("MCBatch", "MCBatch.cfg", workers=8, deadlock=False, coverage=True)
    pr.model_check("MCBatch", "MCBatchReal.cfg", workers=8, deadlock=False)
    # unbounded: Spec => [](OkIsIdentity /\ NeverSilent) for ANY N, segmentation and worker count, proved by tlapm on BatchProof.tla;
    # TLC re-checks the inductive invariant on small constants and that BatchProof refines Batch (gather loop = Finalize)
    pr.model_check("MCBatchProof", "MCBatchProof.cfg", workers=4, coverage=True)
    pr.model_check("MCBatchProof", "MCBatchProofFail.cfg", workers=4)
    pr.prove("BatchProof")

    # ---- 2. spec -> code: TLC behaviours replayed with the stand-in kernel
    scripts, npaths = behaviours_from_tlc(pr)
    real_run = CphotAng.run
    traces = []
    CphotAng.run = standin_run
    try:
        oracles = {}
        for (n, psize, w, fail), steps in scripts:
            if n not in oracles:
                inp = make_inputs(n, seed + n)
                oracles[n] = (inp, Oracle(CphotAng, inp) if n else None)
            inp, orc = oracles[n]
            if n == 0:
                ev = execute(CphotAng, inp, Oracle(CphotAng, inp), "synchronous", 0, 1)
            else:
                ev = execute(CphotAng, inp, orc, "scripted", fail, w, steps=list(steps))
            traces.append(ev)
        # all P! completion orders x failure positions, other partition sizes, real schedulers (stand-in kernel)
        # 1130 events: MORE THAN TEN partitions of the code's size (anything that orders partitions by a label or key rather than by index)
        for n, psz in ([(450, None), (250, 64), (23, 7), (1130, None), (2307, None)] if thorough else [(250, None), (23, 7), (1130, None)]):
            inp = make_inputs(n, seed + 7 * n)
            orc = Oracle(CphotAng, inp)
            P = -(-n // (psz or 100))
            fails = [0, 1, min(n, (psz or 100)), min(n, (psz or 100) + 1), n, (min(n, (psz or 100)), n)]
            if P <= 5:
                perms = list(itertools.permutations(range(P)))
            else:
                rng = np.random.default_rng(seed)
                perms = [tuple(range(P)), tuple(reversed(range(P)))] + [tuple(rng.permutation(P)) for _ in range(60 if thorough else (4 if P > 10 else 12))]
            for perm in perms:
                for fail in (fails if thorough or perm in (perms[0], perms[-1]) else [0]):
                    traces.append(execute(CphotAng, inp, orc, "ordered", fail, 1, order=list(perm), psize_override=psz))
            for mode, w in [("synchronous", 1), ("threads", 1), ("threads", 2), ("threads", 4), ("threads", 16)]:
                for fail in [0, fails[2]]:
                    traces.append(execute(CphotAng, inp, orc, mode, fail, w, shake=seed + 1, psize_override=psz))
    finally:
        CphotAng.run = real_run
    nstandin = len(traces)

    # ---- 3. real kernel: bit for bit against one-at-a-time evaluation on fresh objects
    n = 450 if thorough else 230
    inp = make_inputs(n, seed + 99)
    orc = Oracle(CphotAng, inp)
    P = -(-n // 100)
    orders = [list(range(P)), list(reversed(range(P))), list(np.roll(range(P), 1))]
    for o in orders:
        traces.append(execute(CphotAng, inp, orc, "ordered", 0, 1, order=o))
    traces.append(execute(CphotAng, inp, orc, "ordered", 101, 1, order=orders[1]))
    sched = [("synchronous", 1), ("threads", 4), ("processes", 2)]
    if thorough:
        sched += [("threads", 2), ("threads", 16), ("processes", 4)]
    for mode, w in sched:
        traces.append(execute(CphotAng, inp, orc, mode, 0, w))
    traces.append(execute(CphotAng, inp, orc, "threads", 150, 4))
    traces.append(execute(CphotAng, inp, orc, "processes", 100, 2))
    # call history on ONE kernel object: a clean batch, then the same events with a callback that fails for one of them, then a
    # clean batch again - what the object may remember from an earlier batch must neither hide the failure nor change a result
    shared = CphotAng(525.0)
    for mode, w, fl in (("synchronous", 1, 0), ("synchronous", 1, 57), ("threads", 4, 0), ("threads", 4, 180), ("synchronous", 1, 0)):
        traces.append(execute(CphotAng, inp, orc, mode, fl, w, obj=shared))
    # other spellings of a batch: columns of mixed dtype (binary32 altitudes from a FITS column next to binary64 angles) and Python lists, at a
    # detector altitude other than the reference orbit - the batch must return what the same events give one at a time IN THE SAME SPELLING
    nm = 130
    b0, a0, E0, la0, lo0 = make_inputs(nm, seed + 41)
    for label, inp_m in (("f32-altitudes", (b0, a0.astype(np.float32), E0, la0, lo0)),
                         ("f32-all-but-beta", (b0, a0.astype(np.float32), E0.astype(np.float32), la0.astype(np.float32), lo0.astype(np.float32)))):
        orc_m = Oracle(CphotAng, inp_m, det_alt=33.0)
        for mode, w in (("synchronous", 1), ("threads", 4)):
            traces.append(execute(CphotAng, inp_m, orc_m, mode, 0, w, det_alt=33.0))
    # the configured cloud model object itself as the callback (a uniform deck at 3 km), also in spawned worker processes
    from nuspacesim.simulation.atmosphere.clouds import CloudTopHeight
    from nuspacesim.config import Simulation
    from nssverif.pipeline import make_config
    ccfg = make_config({})
    ccfg.simulation.cloud_model = Simulation.MonoCloud(altitude=3.0)
    deck = CloudTopHeight(ccfg)
    inp_c = make_inputs(nm, seed + 43)
    inp_c[1][:] = np.random.default_rng(seed + 44).uniform(0.0, 4.0, nm)      # decays below and just above the deck
    orc_c = Oracle(CphotAng, inp_c, cloud=deck)
    for mode, w in (("synchronous", 1), ("threads", 4), ("processes", 2)):
        traces.append(execute(CphotAng, inp_c, orc_c, mode, 0, w, cloud=deck))
    # single-event batches (first, a middle and the last event of the mixed-dtype and the float64 inputs)
    for src, da in ((inp, 525.0), (inp_m, 33.0)):
        for i in (0, len(src[0]) // 2, len(src[0]) - 1):
            one = tuple(x[i:i + 1] for x in src)
            traces.append(execute(CphotAng, one, Oracle(CphotAng, one, det_alt=da), "synchronous", 0, 1, det_alt=da))
    # the stage that feeds the kernel (EAS.__call__: range cut, then the batch): a batch with decays outside the simulated window in between and a
    # SITE-DEPENDENT cloud top must return, event by event, what the stage returns for the event alone (outcome clauses only: the
    # partitions of the inner graph hold kernel results, not stage results)
    from nuspacesim.simulation.eas_optical.eas import EAS

    class StageOracle(Oracle):
        def __init__(self, stage, inputs, cloud):
            beta, alt, E, lat, lon = inputs
            self.keys, self.raises = [], set()
            for i in range(len(beta)):
                try:
                    with daskkit.scheduler_ctx("synchronous"):
                        d, a = stage(beta[i:i + 1], alt[i:i + 1], E[i:i + 1], lat[i:i + 1], lon[i:i + 1], cloudf=cloud)
                    self.keys.append(_key(np.atleast_1d(d)[0], np.atleast_1d(a)[0]))
                except Exception:
                    self.raises.add(i + 1)
                    self.keys.append(b"<raises %d>" % i)
            self.index = {}
            for i, k in enumerate(self.keys):
                self.index.setdefault(k, i + 1)

    def site_cloud(la, lo):
        return np.float32(0.3 + 7.0 * abs(np.sin(41.0 * float(la) * 1000.0 + 3.0 * float(lo))))
    ne = 60
    inp_e = list(make_inputs(ne, seed + 51))
    inp_e[1] = inp_e[1].copy()
    inp_e[1][1::3] = np.random.default_rng(seed + 52).choice([-1.0, 24.0, 30.0], size=len(inp_e[1][1::3]))      # decays outside [0, 20] km in between
    inp_e = tuple(inp_e)
    stage = EAS(make_config({}))
    orc_e = StageOracle(stage, inp_e, site_cloud)

    class StageCall:
        def __call__(self, b, a, E, la, lo, cloud):
            return stage(b, a, E, la, lo, cloudf=cloud)
    for mode, w in (("synchronous", 1), ("threads", 4)):
        traces.append(execute(CphotAng, inp_e, orc_e, mode, 0, w, obj=StageCall(), cloud=site_cloud, force_opaque=True))
    # events that fail BY THEMSELVES, each in its own way (whatever exception type the kernel meets for them: NaN angle / altitude / energy / site,
    # a vanishing energy, a decay above the simulated atmosphere), at the first, a middle and the last position of a small batch:
    # an event whose one-at-a-time evaluation raises must make the batch call raise (the oracle decides which of them do)
    nb = 7
    base = make_inputs(nb, seed + 61)
    bad_kinds = [(0, np.nan), (1, np.nan), (2, np.nan), (3, np.nan), (2, 1e-9), (2, 0.0), (1, 70.0), (1, 64.5), (0, 0.0), (0, -0.1)]
    for col, val in bad_kinds:
        for pos in (0, nb // 2, nb - 1):
            inp_b = tuple(x.copy() for x in base)
            inp_b[col][pos] = val
            try:
                orc_b = Oracle(CphotAng, inp_b, cloud=lambda la, lo: -np.inf)
            except BaseException:
                continue
            for mode, w in ((("synchronous", 1), ("threads", 4)) if pos == nb // 2 else (("synchronous", 1),)):
                traces.append(execute(CphotAng, inp_b, orc_b, mode, 0, w, cloud=lambda la, lo: -np.inf))
    # empty batch with the real kernel
    e0 = make_inputs(0, 1)
    traces.append(execute(CphotAng, e0, Oracle(CphotAng, e0), "synchronous", 0, 1))

    # ---- validate every execution against Batch.tla (16 TLC processes, several executions per file)
    nchunks = min(16, len(traces))
    groups = [[] for _ in range(nchunks)]
    for i, t in enumerate(traces):
        groups[i % nchunks].extend(t)
    pr.validate("TraceBatch", None, name="batch-executions", groups=groups)
    pr.traces = len(traces)
    pr.note(tlc_behaviours=npaths, replayed_scripts=len(scripts), standin_executions=nstandin,
            real_kernel_executions=len(traces) - nstandin, real_kernel_events=n)
    return pr.finish(
        rule="executions of CphotAng.__call__: every maximal TLC behaviour of the replay instances (scripted scheduler), "
             "all/sampled completion orders x failure positions x partition sizes (ordered scheduler), dask's synchronous/"
             "threads/processes schedulers (tracing callback); distinct = distinct trace events",
        assumptions=["result tokens: a result is identified with the event whose one-at-a-time evaluation on a fresh kernel "
                     "object is bitwise equal", "true intra-kernel thread interleavings are sampled, not enumerated"],
        trusted=["TLC", "dask callbacks run in the scheduler main thread"])


def replay(path):
    import json
    with open(path) as f:
        data = json.load(f)
    print(json.dumps(data["violations"][:3], indent=1)[:3000])
    return 1
