"""C01 / C02 - diffuse-mode geometry: unbiased acceptance estimator; thrown trajectories are consistent 3-D objects.

spec      : GeomDiffuse.tla (region, CDFs, densities, measure, vectors); MCGeomDiffuse lattice (CDF ends, pdf = dCDF, Jacobian identity,
            quantile inverts the CDF on the closed interval) over 5 altitudes x limb x cone x azimuth range
code->spec: RegionGeom(cfg).throw(u) with u on the closed cube (faces, corners, denormals, 1 - 2^-53) and random, detector positions incl.
            poles and the date line; find_lat_long_along_traj(s); __call__; and an equal-weight quadrature of mcintegral over a u-lattice
            compared by TLC with a midpoint rule over an independent physical parametrisation
"""
import numpy as np

from nssverif import use_repo, par
from nssverif.f64 import bits, bits_array
from nssverif.kit import PropertyRun
from nssverif.pipeline import make_config


def region_of(g, cfg):
    return {"H": bits(g.core_alt), "R": bits(g.earth_radius), "limb": bits(cfg.simulation.angle_from_limb),
            "thetaMax": bits(cfg.simulation.max_cherenkov_angle), "dPhi": bits(float(cfg.simulation.max_azimuth_angle))}


def make_geom(spec):
    use_repo()
    from nuspacesim.simulation.geometry.region_geometry import RegionGeom
    cfg = make_config({"altitude": spec["alt"]})
    s = cfg.simulation
    hor = np.arcsin(6371.0 / (6371.0 + spec["alt"]))
    s.angle_from_limb = float(spec["limb_frac"] * hor)
    s.max_cherenkov_angle = float(np.radians(spec["cone_deg"]))
    s.max_azimuth_angle = float(np.radians(spec["az_deg"]))
    if "az_raw" in spec:
        # the azimuth range in radians exactly as given (an int, a numpy integer): a whole number of radians is a valid range
        s.max_azimuth_angle = {"int3": 3, "npint2": np.int64(2), "int6": 6}[spec["az_raw"]]
    cfg.detector.initial_position.latitude = float(spec.get("dlat", 0.0))
    cfg.detector.initial_position.longitude = float(spec.get("dlon", 0.0))
    return RegionGeom(cfg), cfg


def special_u(rng, n):
    vals = np.array([0.0, 5e-324, 1e-300, 1e-17, 0.5, 1 - 2.0 ** -53, 1 - 2.0 ** -52, 1.0])
    u = rng.random((4, n))
    m = min(n // 2, 200)
    u[:, :m] = vals[rng.integers(0, len(vals), size=(4, m))]          # faces, edges and corners of the closed cube
    k = min(n - m, 60)
    for j in range(k):                                                  # one coordinate on a face, the others interior
        u[j % 4, m + j] = vals[rng.integers(0, len(vals))]
    return u


def event_job(job):
    rng = np.random.default_rng(job["seed"])
    ev = []
    # every geometry object of the job exists before the first one is thrown, and another object at a far-away detector position is
    # built right after each: an object's trajectories are its own configuration's, whatever other objects the process holds
    built = []
    for spec in job["specs"]:
        built.append(make_geom(spec))
        make_geom(dict(spec, dlat=float(spec.get("dlat", 0.0)) * -0.5 + 0.61, dlon=float(spec.get("dlon", 0.0)) + 2.3, alt=spec["alt"] * 1.7 + 11.0))
    for si, spec in enumerate(job["specs"]):
        g, cfg = built[si]
        c = region_of(g, cfg)
        u = special_u(rng, job["n"])
        ubuf = u.copy()                 # ONE argument array for both throws of this object (refilled in between)
        g.throw(ubuf)
        ser = job["seed"] * 100 + si
        dlat, dlon = cfg.detector.initial_position.latitude, cfg.detector.initial_position.longitude
        for i in range(u.shape[1]):
            ev.append({"kind": "ev", "c": c, "dlat": bits(dlat), "dlon": bits(dlon), "u": bits_array(u[:, i]), "ser": ser,
                       "theta": bits(g.thetaTrSubV[i]), "cosTrV": bits(g.costhetaTrSubV[i]), "phi": bits(g.phiTrSubV[i]), "phiS": bits(g.phiS[i]),
                       "l": bits(g.losPathLen[i]), "cosNV": bits(g.costhetaNSubV[i]), "cosTrN": bits(g.costhetaTrSubN[i]),
                       "betaDeg": bits(g.betaTrSubN[i]), "latS": bits(g.latS[i]), "lonS": bits(g.longS[i]), "mask": bool(g.event_mask[i]),
                       "mcnorm": bits(g.mcnorm),
                       "_m": dict(spec, u=[float(x) for x in u[:, i]], l=float(g.losPathLen[i]), beta_deg=float(g.betaTrSubN[i]),
                                  mask=bool(g.event_mask[i]))})
        # small batches (1 .. 5 trajectories; 4 = as many as a trajectory has random numbers) of interior points on the same object
        for k in (1, 2, 3, 4, 5):
            us = np.ascontiguousarray(u[:, -(k + 7):-7])
            g.throw(us.copy())
            if len(g.losPathLen) != k:
                ev.append({"kind": "ret", "nkept": k, "nret": int(len(g.losPathLen)), "_m": dict(spec, small_batch=k)})
                continue
            for i in range(k):
                ev.append({"kind": "ev", "c": c, "dlat": bits(dlat), "dlon": bits(dlon), "u": bits_array(us[:, i]), "ser": ser,
                           "theta": bits(g.thetaTrSubV[i]), "cosTrV": bits(g.costhetaTrSubV[i]), "phi": bits(g.phiTrSubV[i]), "phiS": bits(g.phiS[i]),
                           "l": bits(g.losPathLen[i]), "cosNV": bits(g.costhetaNSubV[i]), "cosTrN": bits(g.costhetaTrSubN[i]),
                           "betaDeg": bits(g.betaTrSubN[i]), "latS": bits(g.latS[i]), "lonS": bits(g.longS[i]), "mask": bool(g.event_mask[i]),
                           "mcnorm": bits(g.mcnorm),
                           "_m": dict(spec, u=[float(x) for x in us[:, i]], l=float(g.losPathLen[i]), beta_deg=float(g.betaTrSubN[i]),
                                      mask=bool(g.event_mask[i]), small_batch=k)})
        ubuf[...] = u
        g.throw(ubuf)
        m = np.asarray(g.event_mask)
        nv = int(m.sum())
        if nv:
            beta = g.beta_rad()
            latS, lonS = g.latS[m], g.longS[m]
            for s in (0.0, 1.0, 50.0, 500.0, float(rng.uniform(0, 2000))):
                la, lo = g.find_lat_long_along_traj(np.full(nv, s))
                for i in range(0, nv, max(1, nv // 40)):
                    ev.append({"kind": "pos", "beta": bits(beta[i]), "s": bits(s), "R": bits(g.earth_radius), "latS": bits(latS[i]), "lonS": bits(lonS[i]),
                               "lat": bits(la[i]), "lon": bits(lo[i]), "_m": dict(spec, s=s, beta_deg=float(np.degrees(beta[i])))})
        # the same object thrown again with other numbers that keep the SAME number of trajectories (a permutation of the batch):
        # positions must belong to the new trajectories
        perm = rng.permutation(u.shape[1])
        ubuf[...] = u[:, perm]
        g.throw(ubuf)
        m2 = np.asarray(g.event_mask)
        if int(m2.sum()):
            beta2, lat2, lon2 = g.beta_rad(), g.latS[m2], g.longS[m2]
            la, lo = g.find_lat_long_along_traj(np.full(int(m2.sum()), 120.0))
            for i in range(0, int(m2.sum()), max(1, int(m2.sum()) // 40)):
                ev.append({"kind": "pos", "beta": bits(beta2[i]), "s": bits(120.0), "R": bits(g.earth_radius), "latS": bits(lat2[i]),
                           "lonS": bits(lon2[i]), "lat": bits(la[i]), "lon": bits(lo[i]),
                           "_m": dict(spec, s=120.0, beta_deg=float(np.degrees(beta2[i])), rethrown=True)})
        out = g(u.copy())
        # and with every registered plot requested (non-interactive backend): what the caller receives must be the same selection
        from nssverif import plots as _plots
        try:
            outp = _plots.call(g, u.copy(), plot=True)
            same = len(outp) == len(out) and all(np.array_equal(np.asarray(a), np.asarray(b)) for a, b in zip(outp, out))
        except Exception:
            same = False
        ev.append({"kind": "ret", "nkept": int(np.asarray(g.event_mask).sum()), "nret": int(len(outp[0])) if same else -1, "_m": dict(spec, plots_requested=True)})
        for x in out:
            ev.append({"kind": "ret", "nkept": int(np.asarray(g.event_mask).sum()), "nret": int(len(x)), "_m": dict(spec)})
    return ev


def quad_job(job):
    """equal-weight quadrature of the estimator: midpoints of n4 equal strata in u4 (the coordinate with the integrable horizon
    singularity; a pure quasi-random set has a heavy-tailed error there) x k scrambled-Sobol points in (u1, u2) per stratum, drawn
    from one running sequence; u3 fixed (the integrand does not depend on it)"""
    from scipy.stats import qmc
    spec = job["spec"]
    g, cfg = make_geom(spec)
    n4, k = job["n4"], job["k"]
    sob = qmc.Sobol(d=2, scramble=True, seed=job["seed"])
    tot, cnt = 0.0, 0
    block = max(1, (1 << 20) // k)
    for k0 in range(0, n4, block):
        d = (np.arange(k0, min(n4, k0 + block)) + 0.5) / n4
        p = sob.random(len(d) * k).T
        u = np.stack([p[0], p[1], np.full(p.shape[1], 0.5), np.repeat(d, k)])
        g.throw(u)
        nv = int(np.asarray(g.event_mask).sum())
        if nv:
            # an optical-like evaluation with a tight cone cut first, as compute() does before the radio channel: the geometry-only
            # value of the next call must not remember it
            g.mcintegral(np.ones(nv), float(np.cos(0.2 * cfg.simulation.max_cherenkov_angle)), np.ones(nv), 0.0, 1.0, 1.0)
        est = g.mcintegral(np.ones(nv), -1.0, np.ones(nv), 0.0, 1.0, 1.0)[1] if nv else 0.0
        tot += float(est) * u.shape[1]
        cnt += u.shape[1]
    est = tot / cnt
    # grid of the specification's quadrature: the outer step must resolve the cone angle
    nu0 = np.arccos(np.clip((g.core_alt ** 2 - g.earth_rad_2 - g.minLOSpathLen ** 2) / (2 * g.earth_radius * g.minLOSpathLen), -1, 1))
    nNu = int(min(job["nmax"], max(200, 8 * (np.pi / 2 - nu0) / cfg.simulation.max_cherenkov_angle)))
    return [{"kind": "quad", "c": region_of(g, cfg), "est": bits(est), "nNu": nNu, "nTh": job["nth"],
             "_m": dict(spec, estimate=est, lattice=[n4, k], spec_grid=[nNu, job["nth"]])}]


def _dispatch(job):
    return event_job(job) if job["t"] == "ev" else quad_job(job)


SPECS = [{"alt": 525.0, "limb_frac": 0.33, "cone_deg": 3.0, "az_deg": 360.0},
         {"alt": 33.0, "limb_frac": 0.5, "cone_deg": 30.0, "az_deg": 10.0, "dlat": 1.2, "dlon": 3.1},
         {"alt": 5.0, "limb_frac": 0.9, "cone_deg": 0.5, "az_deg": 180.0, "dlat": -0.7, "dlon": -3.14159},
         {"alt": 2000.0, "limb_frac": 0.1, "cone_deg": 80.0, "az_deg": 360.0, "dlat": np.pi / 2, "dlon": 1.0},
         {"alt": 36000.0, "limb_frac": 0.6, "cone_deg": 3.0, "az_deg": 90.0, "dlat": -np.pi / 2, "dlon": 0.0},
         {"alt": 525.0, "limb_frac": 0.05, "cone_deg": 10.0, "az_deg": 360.0, "dlat": 0.3, "dlon": 6.2},
         {"alt": 525.0, "limb_frac": 0.33, "cone_deg": 3.0, "az_deg": 360.0, "dlat": float(np.radians(80.0)), "dlon": 0.7},
         {"alt": 525.0, "limb_frac": 0.6, "cone_deg": 5.0, "az_deg": 360.0, "dlat": float(np.radians(-75.0)), "dlon": -2.0},
         {"alt": 400.0, "limb_frac": 0.5, "cone_deg": 3.0, "az_deg": 360.0, "dlat": float(np.radians(88.5)), "dlon": 3.0},
         {"alt": 525.0, "limb_frac": 0.33, "cone_deg": 3.0, "az_deg": 0.0, "az_raw": "int3"},
         {"alt": 400.0, "limb_frac": 0.4, "cone_deg": 5.0, "az_deg": 0.0, "az_raw": "npint2", "dlat": 0.5, "dlon": 1.0}]


def run(tier="quick", seed=0, pid="C01"):
    pr = PropertyRun(pid, tier, seed)
    thorough = tier == "thorough"
    pr.model_check("MCGeomDiffuse", workers=16, timeout=1200)
    rng = np.random.default_rng(seed)
    specs = list(SPECS)
    if thorough:
        for _ in range(120):
            specs.append({"alt": float(rng.choice([5.0, 33.0, 400.0, 525.0, 2000.0, 36000.0])), "limb_frac": float(rng.uniform(0.01, 0.95)),
                          "cone_deg": float(rng.choice([0.5, 3.0, 30.0, 80.0])), "az_deg": float(rng.choice([10.0, 180.0, 360.0])),
                          "dlat": float(np.arcsin(rng.uniform(-1, 1))), "dlon": float(rng.uniform(-np.pi, 2 * np.pi))})
    jobs = [{"t": "ev", "seed": seed * 50 + i, "specs": specs[i::12], "n": 4000 if thorough else 700} for i in range(12) if specs[i::12]]
    qspecs = SPECS
    for s in qspecs:
        jobs.append({"t": "quad", "spec": s, "n4": 262144 if thorough else 65536, "k": 32 if thorough else 16, "seed": seed + 1,
                     "nmax": 4000 if thorough else 1500,
                     "nth": 32 if thorough else 20})
    res = par.pmap(_dispatch, jobs, workers=14)
    ev = [e for r in res for e in r if e["kind"] != "quad"]
    quad = [e for r in res for e in r if e["kind"] == "quad"]
    # chunk on series boundaries (the azimuth convention is inferred per series)
    groups, cur, last = [], [], None
    target = max(1, len(ev) // 12)
    for e in ev:
        key = e.get("ser")
        if len(cur) >= target and e["kind"] == "ev" and key != last:
            groups.append(cur)
            cur = []
        cur.append(e)
        if e["kind"] == "ev":
            last = key
    groups.append(cur)
    groups += [[q] for q in quad]
    pr.validate("TraceGeomDiffuse", None, name="diffuse-geometry", groups=groups, timeout=2400, heap="3g")
    kept = sum(1 for e in ev if e["kind"] == "ev" and e["mask"])
    pr.note(configurations=len(specs), thrown=sum(1 for e in ev if e["kind"] == "ev"), kept=kept,
            positions=sum(1 for e in ev if e["kind"] == "pos"),
            quadratures=[{"alt": q["_m"]["alt"], "estimate": q["_m"]["estimate"], "lattice": q["_m"]["lattice"]} for q in quad])
    return pr.finish(
        rule="RegionGeom.throw(u) over configurations (altitude 5..36000 km, limb fraction, cone 0.5..80 deg, azimuth range, detector positions "
             "incl. poles and the date line) with u on faces / corners / denormals / 1-2^-53 of the closed cube and random; positions along "
             "trajectories at s in {0, 1, 50, 500, random} km; u-lattice quadratures of mcintegral; distinct = distinct events",
        assumptions=["events within 1e-9 of the keep boundary are inconclusive", "quadrature acceptance band 0.4 % (midpoint strata in u4 have a known negative bias ~ n4^-1/2 from the "
                     "integrable horizon singularity: <= 0.19 % observed at n4 = 65536; the specification's midpoint rule has the azimuth integral in closed form)"],
        trusted=["TLC + Float64 override"])


def replay(path):
    import json
    print(json.dumps(json.load(open(path))["violations"][:3], indent=1)[:4000])
    return 1
