"""C06 - Cherenkov photon yield conforms to the shower model at working precision.

spec      : Cherenkov.tla - the physical model in double precision as a state machine over track steps (two passes over the track,
            Greisen profile, Hillas track-length and angular distributions, Rayleigh / ozone / aerosol attenuation); MCCherenkov lattice
            (termination, finite non-negative outputs, 1 degree clamp, cloud regimes)
code->spec: CphotAng.run over a low-discrepancy design of (beta, altitude, log E) plus faces and corners, both in the production binary32
            path (judged with the property's own tolerances) and with the verification hook NUSPACESIM_VERIF_DTYPE=float64 (judged at
            1e-9, which separates logic from rounding); TLC evaluates the model for every event (TraceCherenkov.tla)
"""
import os

import numpy as np

from nssverif import use_repo, par
from nssverif.f64 import bits
from nssverif.kit import PropertyRun


def kernels(det_alt=525.0):
    """(production binary32 kernel, the same kernel in double precision through the verification hook)"""
    use_repo()
    from nuspacesim.simulation.eas_optical.cphotang import CphotAng
    old = os.environ.pop("NUSPACESIM_VERIF_DTYPE", None)
    try:
        c32 = CphotAng(det_alt)
        os.environ["NUSPACESIM_VERIF_DTYPE"] = "float64"
        c64 = CphotAng(det_alt)
    finally:
        os.environ.pop("NUSPACESIM_VERIF_DTYPE", None)
        if old is not None:
            os.environ["NUSPACESIM_VERIF_DTYPE"] = old
    return c32, c64


def design(n, seed):
    """low-discrepancy points in (beta [0, 42 deg], altitude [0, 20 km], log10 E [-5, 4]) + faces and corners of the domain"""
    from scipy.stats import qmc
    pts = qmc.Sobol(d=3, scramble=True, seed=seed).random_base2(int(np.ceil(np.log2(max(n, 2)))))[:n]
    ev = [(np.radians(42.0 * p[0]), 20.0 * p[1], 10.0 ** (-5 + 9 * p[2])) for p in pts]
    corners = [(b, a, e) for b in (0.0, np.radians(42.0)) for a in (0.0, 20.0) for e in (1e-5, 1e4)]
    faces = [(np.radians(1.0), 7.0, 1.0), (np.radians(0.999), 3.0, 10.0), (np.radians(21.0), 0.0, 1e-2), (np.radians(21.0), 20.0, 1e2),
             (np.radians(10.0), 10.999, 1.0), (np.radians(10.0), 24.9 - 5.0, 1.0)]
    return ev, corners, faces


def event_job(job):
    import warnings
    warnings.simplefilter("ignore")
    zdet = job.get("zdet", 525.0)
    c32, c64 = kernels(zdet)
    out = []
    ref_cache = {}
    for beta, alt, E in job["events"]:
        top = -np.inf
        with np.errstate(all="ignore"):
            try:
                d32, a32 = c32.run(beta, alt, E, 0.0, 0.0, None)
                d64, a64 = c64.run(beta, alt, E, 0.0, 0.0, None)
                err = None
            except Exception as ex:
                d32 = a32 = d64 = a64 = float("nan")
                err = repr(ex)[:200]
            clamped = beta < np.radians(1.0)
            if clamped:
                key = (alt, E)
                if key not in ref_cache:
                    ref_cache[key] = c32.run(np.radians(1.0), alt, E, 0.0, 0.0, None)
                dref, aref = ref_cache[key]
            else:
                dref, aref = d32, a32
        out.append({"kind": "k", "beta": bits(beta), "alt": bits(alt), "E100": bits(E), "top": bits(top), "zdet": bits(zdet),
                    "d32": bits(d32), "a32": bits(a32), "has64": c64.dtype == np.float64, "d64": bits(d64), "a64": bits(a64),
                    "clamped": bool(clamped), "scale": bits(0.0), "d32ref": bits(dref), "a32ref": bits(aref),
                    "_m": {"beta_deg": float(np.degrees(beta)), "alt": float(alt), "E100": float(E), "zdet": zdet, "d32": float(d32), "a32": float(a32),
                           "d64": float(d64), "a64": float(a64), "hook_active": bool(c64.dtype == np.float64), "error": err}})
    return out


def thread_job(job):
    """events evaluated while OTHER events are in flight on the same kernel object: a batch of > 100 events through CphotAng.__call__
    under the threaded scheduler; a sample of them is judged against the model like any other event"""
    import warnings
    warnings.simplefilter("ignore")
    import dask
    from nssverif.pipeline import quiet_progress
    c32, c64 = kernels(525.0)
    quiet_progress()
    rng = np.random.default_rng(job["seed"])
    n = job["n"]
    beta = np.radians(rng.uniform(8.0, 42.0, n))
    alt = rng.uniform(0.0, 12.0, n)
    E = 10.0 ** rng.uniform(-1.0, 2.0, n)
    with dask.config.set(scheduler="threads", num_workers=4), np.errstate(all="ignore"):
        d, a = c32(beta, alt, E, np.zeros(n), np.zeros(n), None)
    # every event of the batch against its own sequential evaluation (TraceInFlight: a comparison, no model run)
    pairs = []
    with np.errstate(all="ignore"):
        for i in range(n):
            ds, as_ = c32.run(beta[i], alt[i], E[i], 0.0, 0.0, None)
            pairs.append({"kind": "pair", "d": bits(d[i]), "a": bits(a[i]), "dseq": bits(ds), "aseq": bits(as_),
                          "_m": {"i": i, "beta_deg": float(np.degrees(beta[i])), "alt": float(alt[i]), "E100": float(E[i]), "d_threads": float(d[i]),
                                 "d_sequential": float(ds), "batch": "threads-4"}})
    out = pairs
    for i in rng.choice(n, size=job["take"], replace=False):
        with np.errstate(all="ignore"):
            d64, a64 = c64.run(beta[i], alt[i], E[i], 0.0, 0.0, None)
        out.append({"kind": "k", "beta": bits(beta[i]), "alt": bits(alt[i]), "E100": bits(E[i]), "top": bits(-np.inf), "zdet": bits(525.0),
                    "d32": bits(d[i]), "a32": bits(a[i]), "has64": c64.dtype == np.float64, "d64": bits(d64), "a64": bits(a64),
                    "clamped": False, "scale": bits(0.0), "d32ref": bits(d[i]), "a32ref": bits(a[i]),
                    "_m": {"beta_deg": float(np.degrees(beta[i])), "alt": float(alt[i]), "E100": float(E[i]), "zdet": 525.0, "d32": float(d[i]),
                           "a32": float(a[i]), "d64": float(d64), "a64": float(a64), "hook_active": bool(c64.dtype == np.float64),
                           "batch": "threads-4", "error": None}})
    return out


def _dispatch(job):
    return thread_job(job) if job.get("t") == "threads" else event_job(job)


def run(tier="quick", seed=0):
    pr = PropertyRun("C06", tier, seed)
    thorough = tier == "thorough"
    pr.model_check("MCCherenkov", "MCCherenkovDeep.cfg" if thorough else "MCCherenkov.cfg", workers=8 if thorough else 2, heap="3g", timeout=3000)
    ev, corners, faces = design(6144 if thorough else 64, seed + 1)
    allev = corners + faces + ev
    rng = np.random.default_rng(seed)
    jobs = [{"events": allev[i::14]} for i in range(14)]
    for zdet in ((33.0, 2000.0) if thorough else (33.0,)):
        # other detector altitudes: random events + sub-degree angles (the 1 deg rule must hold through the altitude rescaling as well)
        sub = [(0.0, 0.0, 1.0), (np.radians(0.5), 0.3, 10.0), (np.radians(0.999), 3.0, 1e-2), (np.radians(0.2), 0.0, 1e3)]
        jobs.append({"events": sub + [ev[int(k)] for k in rng.choice(len(ev), size=30 if thorough else 3, replace=False)], "zdet": zdet})
    jobs.append({"t": "threads", "seed": seed + 5, "n": 230, "take": 24 if thorough else 8})
    res = par.pmap(_dispatch, jobs, workers=14)
    events = [e for r in res for e in r if e["kind"] != "pair"]
    pairs = [e for r in res for e in r if e["kind"] == "pair"]
    pr.validate("TraceInFlight", pairs, name="events-in-flight", chunks=2)
    # cost of an event in TLC grows with the number of track steps (low emergence angle): interleave cheap and expensive events over the chunks
    events.sort(key=lambda e: e["_m"]["beta_deg"])
    nchunk = 16
    groups = [events[i::nchunk] for i in range(nchunk)]
    pr.validate("TraceCherenkov", None, name="kernel-events", groups=groups, silent_steps=True, timeout=3000, heap="2g")
    hook = sum(1 for e in events if e["has64"])
    if hook == 0:
        pr.note(warning="verification hook inactive: float64 clauses not exercised")
    pr.note(events=len(events), events_with_float64_hook=hook, detector_altitudes=sorted({e["_m"]["zdet"] for e in events}),
            nonzero=sum(1 for e in events if e["_m"]["d32"] > 0))
    return pr.finish(
        rule="CphotAng.run over a scrambled Sobol design in (beta [0, 42 deg], altitude [0, 20 km], log10 E [-5, 4]) plus all 8 corners, face points "
             "and angles below 1 deg, at 525 km and other detector altitudes; each event in the production binary32 path and in double "
             "precision through the hook; one model evaluation by TLC per event; distinct = distinct events",
        assumptions=["the hook NUSPACESIM_VERIF_DTYPE=float64 only changes the kernel's dtype", "median clause over events with model density > 1 m^-2, "
                     "per TLC chunk", "StrictMath vs libm rounding is far below the 1e-9 logic tolerance"],
        trusted=["TLC + Float64 override"])


def replay(path):
    import json
    print(json.dumps(json.load(open(path))["violations"][:3], indent=1)[:4000])
    return 1
