"""C07 - tau kinematics and decay point are physical and geometrically consistent.
spec: Kinematics.tla (+ TauTables.TauAboveMass: smallest reachable tau energy of every table node and cell > m_tau);
MCKinematics lattice; code->spec: Taus.__call__ / EAS.altDec events validated by TraceTau.tla"""
from drivers import c04
from nssverif.kit import PropertyRun


def run(tier="quick", seed=0):
    return c04.run(tier, seed, which="c07", pid="C07")


replay = c04.replay
