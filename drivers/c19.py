"""C19 - standard-atmosphere pressure and altitude are mutual inverses everywhere.

spec      : StdAtmosphere.tla (layer table = shipped constants, TableSound), MCStdAtmosphere: 0..120 km lattice (50 m quick / 1 m thorough)
            + every layer boundary +- 60 ulps: round trips, positivity, near-monotonicity, end points
code->spec: both shipped copies (atmosphere.pressure, eas_optical.atmospheric_models) on the lattice as arrays, 0-d arrays and
            Python scalars; TLC compares each value with the spec, the copies bit for bit, and the code's own round trips
"""
import numpy as np

from nssverif import use_repo
from nssverif.f64 import bits
from nssverif.kit import PropertyRun


def events(seed, npts):
    use_repo()
    from nuspacesim.simulation.atmosphere import pressure as A
    from nuspacesim.simulation.eas_optical import atmospheric_models as O
    from nuspacesim import constants as const
    rng = np.random.default_rng(seed)
    R = const.earth_radius
    Hb = np.asarray(const.std_atm_geopotential_height[:-1], dtype=float)
    zb = R * Hb / (R - Hb)
    ev = []
    # ---- series of ascending altitudes
    series = [np.linspace(0.0, 120.0, npts), np.sort(rng.uniform(0.0, 120.0, npts // 2))]
    for k in range(1, len(zb)):
        w = [zb[k]]
        for _ in range(60):
            w.append(np.nextafter(w[-1], np.inf))
        lo = [zb[k]]
        for _ in range(60):
            lo.append(np.nextafter(lo[-1], -np.inf))
        series.append(np.array(sorted(set(lo + w))))
    # neighbourhoods of every boundary on a logarithmic scale (1e-12 .. 1 km either side): between the ulp neighbours and the lattice
    for k in range(1, len(zb)):
        d = 10.0 ** np.linspace(-12.0, 0.0, 49)
        series.append(np.clip(np.sort(np.concatenate([zb[k] - d, [zb[k]], zb[k] + d])), 0.0, 120.0))
    for si, z in enumerate(series):
        pa = A.us_std_atm_pressure_from_altitude(z.copy())
        po = O.us_std_atm_pressure_from_altitude(z.copy())
        # the round trip alternates between the two copies (each must invert itself and the other)
        back = (A if si % 2 == 0 else O).us_std_atm_altitude_from_pressure((pa if si % 3 else po).copy())
        for i in range(len(z)):
            ev.append({"kind": "pz", "z": bits(z[i]), "pa": bits(pa[i]), "po": bits(po[i]), "back": bits(back[i]), "ser": si,
                       "_m": {"z": float(z[i]), "P": float(pa[i]), "form": "array"}})
    # scalars and 0-d arrays give what arrays give
    zs = np.concatenate([rng.uniform(0, 120, 25), zb, [0.0, 120.0]])
    for j, z in enumerate(zs):
        for form, arg in (("0-d", np.asarray(z)), ("scalar", float(z)), ("np.float64", np.float64(z))):
            try:
                pa = np.asarray(A.us_std_atm_pressure_from_altitude(arg), dtype=float).reshape(-1)[0]
                po = np.asarray(O.us_std_atm_pressure_from_altitude(arg), dtype=float).reshape(-1)[0]
                back = np.asarray(A.us_std_atm_altitude_from_pressure(pa), dtype=float).reshape(-1)[0]
            except Exception as ex:
                pa = po = back = float("nan")
            ev.append({"kind": "pz", "z": bits(z), "pa": bits(pa), "po": bits(po), "back": bits(back), "ser": 1000 + 3 * j,
                       "_m": {"z": float(z), "P": float(pa), "form": form}})
    # whole-number altitudes / pressures given as Python ints, numpy integers and integer arrays, and binary32 inputs: "for scalars
    # as well as arrays" - an altitude of 5 km is in the domain however it is spelled (binary32 inputs are judged at the double they hold)
    for j, zi in enumerate((0, 5, 11, 20, 47, 86, 119)):
        for form, arg in (("int", int(zi)), ("np.int64", np.int64(zi)), ("int array", np.array([zi, zi], dtype=np.int64)),
                          ("uint8 array", np.array([zi, zi], dtype=np.uint8)), ("np.uint32", np.uint32(zi)), ("int32 array", np.array([zi, zi], dtype=np.int32)),
                          ("2-D array", np.array([[float(zi), zi + 0.5]])), ("Fortran 2-D", np.asfortranarray(np.array([[float(zi), zi + 0.5], [zi + 0.25, zi + 0.75]]))),
                          ("float32", np.float32(zi + 0.25)), ("float32 array", np.array([zi + 0.25, zi + 0.5], dtype=np.float32)),
                          ("list", [float(zi), zi + 0.5])):
            zval = float(np.asarray(arg, dtype=float).reshape(-1)[0])
            try:
                pa = float(np.asarray(A.us_std_atm_pressure_from_altitude(arg), dtype=float).reshape(-1)[0])
                po = float(np.asarray(O.us_std_atm_pressure_from_altitude(arg), dtype=float).reshape(-1)[0])
                back = float(np.asarray(A.us_std_atm_altitude_from_pressure(pa), dtype=float).reshape(-1)[0])
                err = None
            except Exception as ex:
                pa = po = back = float("nan")
                err = repr(ex)[:160]
            ev.append({"kind": "pz", "z": bits(zval), "pa": bits(pa), "po": bits(po), "back": bits(back), "ser": 8000 + 10 * j,
                       "_m": {"z": zval, "P": pa, "form": form, "error": err}})
    for j, Pi in enumerate((101325, 50000, 22632, 5474, 868, 110, 66, 3, 1)):
        for form, arg in (("int", int(Pi)), ("np.int64", np.int64(Pi)), ("int array", np.array([Pi, Pi], dtype=np.int64)),
                          ("uint32 array", np.array([Pi, Pi], dtype=np.uint32)), ("np.uint64", np.uint64(Pi)),
                          ("uint16 array", np.array([min(Pi, 65535)] * 2, dtype=np.uint16)), ("int32 array", np.array([Pi, Pi], dtype=np.int32)),
                          ("float16->float32", np.float32(np.float16(min(Pi, 60000)))), ("2-D array", np.array([[float(Pi), float(Pi)]])),
                          ("float32", np.float32(Pi)), ("list", [float(Pi), float(Pi)])):
            Pval = float(np.asarray(arg, dtype=float).reshape(-1)[0])
            try:
                za = float(np.asarray(A.us_std_atm_altitude_from_pressure(arg), dtype=float).reshape(-1)[0])
                zo = float(np.asarray(O.us_std_atm_altitude_from_pressure(arg), dtype=float).reshape(-1)[0])
                bk = float(np.asarray(A.us_std_atm_pressure_from_altitude(za), dtype=float).reshape(-1)[0])
                err = None
            except Exception as ex:
                za = zo = bk = float("nan")
                err = repr(ex)[:160]
            ev.append({"kind": "zp", "P": bits(Pval), "za": bits(za), "zo": bits(zo), "back": bits(bk),
                       "_m": {"P": Pval, "z": za, "form": form, "error": err}})
    # ---- pressures
    P = np.concatenate([101325.0 * 10.0 ** np.linspace(0.0, -8.5, npts // 2), np.asarray(const.std_atm_pressure[:-1], dtype=float),
                        rng.uniform(1e-3, 101325.0, npts // 4)])
    edge = []
    for pb in const.std_atm_pressure[1:-1]:
        v = float(pb)
        for _ in range(30):
            v = np.nextafter(v, np.inf)
            edge.append(v)
        v = float(pb)
        for _ in range(30):
            v = np.nextafter(v, 0)
            edge.append(v)
    for pb in const.std_atm_pressure[1:-1]:
        r = 10.0 ** np.linspace(-14.0, -1.0, 40)
        edge += list(float(pb) * (1.0 + r)) + list(float(pb) * (1.0 - r))
    P = np.concatenate([P, edge])
    P = P[(P > 0) & (P <= 101325.0)]
    za = A.us_std_atm_altitude_from_pressure(P.copy())
    zo = O.us_std_atm_altitude_from_pressure(P.copy())
    back = A.us_std_atm_pressure_from_altitude(za.copy())
    backo = O.us_std_atm_pressure_from_altitude(zo.copy())
    for i in range(len(P)):
        ev.append({"kind": "zp", "P": bits(P[i]), "za": bits(za[i]), "zo": bits(zo[i]), "back": bits(back[i] if i % 2 else backo[i]),
                   "_m": {"P": float(P[i]), "z": float(za[i]), "form": "array", "back_copy": "atmosphere" if i % 2 else "optical"}})
    # ---- arrays in every memory layout, judged ELEMENT BY ELEMENT at their own index (transposed, Fortran-ordered, swapped axes, strided /
    # reversed / broadcast views), and one call with more elements than any internal block size (2**16) that is not a multiple of it: a
    # sample of its elements (both ends, around every multiple of 4096, random ones) is judged like any other element
    def layouts(draw):
        yield "transposed 2-D", draw((5, 7)).T
        yield "Fortran 2-D", np.asfortranarray(draw((4, 6)))
        yield "swapped axes 3-D", draw((2, 3, 4)).swapaxes(0, 2)
        yield "strided view", draw((40,))[::3]
        yield "reversed view", draw((15,))[::-1]
        yield "column of a C array", draw((6, 4))[:, 1]
        yield "broadcast view", np.broadcast_to(draw((2,)), (3, 2))
        yield "70001 elements", np.sort(draw((70001,)))
        yield "131073 elements 2-D", draw((3, 43691))

    def pick(nelem):
        if nelem <= 400:
            return range(nelem)
        idx = set(range(12)) | set(range(nelem - 12, nelem)) | set(int(i) for i in rng.integers(0, nelem, 150))
        for k in range(4096, nelem, 4096):
            idx |= {k - 1, k, k + 1} & set(range(nelem))
        return sorted(idx)

    lay = 0
    for name, M, Mo in (("atmosphere", A, O), ("optical", O, A)):
        for form, arg in layouts(lambda shp: np.where(rng.random(shp) < 0.15, rng.choice(zb, size=shp), rng.uniform(0.0, 120.0, shp))):
            lay += 1
            keep = np.array(arg, copy=True)
            try:
                pa = np.asarray(M.us_std_atm_pressure_from_altitude(arg), dtype=float)
                po = np.asarray(Mo.us_std_atm_pressure_from_altitude(arg), dtype=float)
                back = np.asarray(Mo.us_std_atm_altitude_from_pressure(pa), dtype=float)
                if pa.shape != keep.shape or po.shape != keep.shape or back.shape != keep.shape or not np.array_equal(np.asarray(arg), keep):
                    raise ValueError(f"result shapes {pa.shape} {po.shape} {back.shape} for an argument of shape {keep.shape} / argument changed")
                err = None
            except Exception as ex:
                pa = po = back = np.full(keep.shape, np.nan)
                err = repr(ex)[:160]
            flat = [np.unravel_index(i, keep.shape) for i in pick(keep.size)]
            for idx in flat:
                ev.append({"kind": "pz", "z": bits(float(keep[idx])), "pa": bits(float(pa[idx])), "po": bits(float(po[idx])), "back": bits(float(back[idx])),
                           "ser": 9000 + lay, "_m": {"z": float(keep[idx]), "P": float(pa[idx]), "form": form, "copy": name, "index": [int(i) for i in idx], "error": err}})
        for form, arg in layouts(lambda shp: np.where(rng.random(shp) < 0.15, rng.choice(np.asarray(const.std_atm_pressure[:-1], dtype=float), size=shp),
                                                      101325.0 * 10.0 ** rng.uniform(-8.4, 0.0, shp))):
            keep = np.array(arg, copy=True)
            try:
                za = np.asarray(M.us_std_atm_altitude_from_pressure(arg), dtype=float)
                zo = np.asarray(Mo.us_std_atm_altitude_from_pressure(arg), dtype=float)
                back = np.asarray(M.us_std_atm_pressure_from_altitude(za), dtype=float)
                if za.shape != keep.shape or zo.shape != keep.shape or back.shape != keep.shape or not np.array_equal(np.asarray(arg), keep):
                    raise ValueError(f"result shapes {za.shape} {zo.shape} {back.shape} for an argument of shape {keep.shape} / argument changed")
                err = None
            except Exception as ex:
                za = zo = back = np.full(keep.shape, np.nan)
                err = repr(ex)[:160]
            for idx in [np.unravel_index(i, keep.shape) for i in pick(keep.size)]:
                ev.append({"kind": "zp", "P": bits(float(keep[idx])), "za": bits(float(za[idx])), "zo": bits(float(zo[idx])), "back": bits(float(back[idx])),
                           "_m": {"P": float(keep[idx]), "z": float(za[idx]), "form": form, "copy": name, "index": [int(i) for i in idx], "error": err}})
    # ---- histories: ONE buffer object reused across CONSECUTIVE calls of one function and changed in place in between (a stepping
    # loop: z += dz), with no other call in between (a last-call memo survives only then); every call must answer for the values the
    # argument holds NOW.  Arrays, 0-d arrays; both functions; both copies.
    for name, M in (("atmosphere", A), ("optical", O)):
        for what, fn, inv, start, step_f in (("pz", M.us_std_atm_pressure_from_altitude, M.us_std_atm_altitude_from_pressure,
                                              np.array([1.0, 11.5, 33.0, 70.0]), lambda b: b + 7.25),
                                             ("zp", M.us_std_atm_altitude_from_pressure, M.us_std_atm_pressure_from_altitude,
                                              np.array([90000.0, 5000.0, 30.0, 0.5]), lambda b: b * 0.37)):
            for form, buf in (("reused buffer", start.copy()), ("reused 0-d buffer", np.asarray(float(start[1])))):
                seen = []
                for step in range(4):
                    out = np.array(fn(buf), dtype=float)            # nothing else is called between two steps
                    seen.append((np.array(buf, dtype=float).copy(), out))
                    buf[...] = step_f(np.array(buf, dtype=float))    # in place: the same object, new contents
                for step, (arg, out) in enumerate(seen):
                    back = np.array(inv(out.copy()), dtype=float)
                    a1, o1, b1 = np.atleast_1d(arg), np.atleast_1d(out), np.atleast_1d(back)
                    for i in range(len(a1)):
                        m = {"form": form, "copy": name, "step": step}
                        if what == "pz":
                            ev.append({"kind": "pz", "z": bits(a1[i]), "pa": bits(o1[i]), "po": bits(o1[i]), "back": bits(b1[i]),
                                       "ser": 7000 + 100 * step + i + (50 if form != "reused buffer" else 0) + (500 if name == "optical" else 0),
                                       "_m": dict(m, z=float(a1[i]), P=float(o1[i]))})
                        else:
                            ev.append({"kind": "zp", "P": bits(a1[i]), "za": bits(o1[i]), "zo": bits(o1[i]), "back": bits(b1[i]),
                                       "_m": dict(m, P=float(a1[i]), z=float(o1[i]))})
    # arrays that mix the end points with ordinary values: every element is judged
    mixP = np.array([0.0, 5.0, 101325.0, 1e-3, 0.0, 22632.0])
    za, zo = A.us_std_atm_altitude_from_pressure(mixP.copy()), O.us_std_atm_altitude_from_pressure(mixP.copy())
    bk = A.us_std_atm_pressure_from_altitude(np.asarray(za).copy())
    for i in range(len(mixP)):
        ev.append({"kind": "zp", "P": bits(mixP[i]), "za": bits(za[i]), "zo": bits(zo[i]), "back": bits(bk[i]),
                   "_m": {"P": float(mixP[i]), "z": float(za[i]), "form": "mixed array"}})
    mixZ = np.array([np.inf, 5.0, 0.0, 86.0, np.inf, 119.0])
    pa, po = A.us_std_atm_pressure_from_altitude(mixZ.copy()), O.us_std_atm_pressure_from_altitude(mixZ.copy())
    bk = A.us_std_atm_altitude_from_pressure(np.asarray(pa).copy())
    for i in range(len(mixZ)):
        ev.append({"kind": "pz", "z": bits(mixZ[i]), "pa": bits(pa[i]), "po": bits(po[i]), "back": bits(bk[i]), "ser": 6000 + i,
                   "_m": {"z": float(mixZ[i]), "P": float(pa[i]), "form": "mixed array"}})
    for form, arg in (("scalar", 0.0), ("0-d", np.asarray(0.0)), ("array", np.array([0.0, 5.0]))):
        za = np.asarray(A.us_std_atm_altitude_from_pressure(arg), dtype=float).reshape(-1)[0]
        zo = np.asarray(O.us_std_atm_altitude_from_pressure(arg), dtype=float).reshape(-1)[0]
        ev.append({"kind": "zp", "P": bits(0.0), "za": bits(za), "zo": bits(zo), "back": bits(0.0), "_m": {"P": 0.0, "z": float(za), "form": form}})
    for form, arg in (("scalar", float("inf")), ("0-d", np.asarray(np.inf)), ("array", np.array([np.inf, 5.0]))):
        pa = np.asarray(A.us_std_atm_pressure_from_altitude(arg), dtype=float).reshape(-1)[0]
        po = np.asarray(O.us_std_atm_pressure_from_altitude(arg), dtype=float).reshape(-1)[0]
        ev.append({"kind": "pz", "z": bits(np.inf), "pa": bits(pa), "po": bits(po), "back": bits(np.inf), "ser": 5000,
                   "_m": {"z": "inf", "P": float(pa), "form": form}})
    return ev


def run(tier="quick", seed=0):
    pr = PropertyRun("C19", tier, seed)
    thorough = tier == "thorough"
    from nssverif import tables
    atm = {"ATM_FILE": tables.export_atmosphere()}
    pr.model_check("MCStdAtmosphere", "MCStdAtmosphere_1.cfg" if thorough else "MCStdAtmosphere_50.cfg", workers=16, timeout=1800,
                   env=atm)
    ev = events(seed, 60000 if thorough else 6000)
    # chunk without cutting a series
    groups, cur, last = [], [], None
    target = max(1, len(ev) // 16)
    for e in ev:
        key = (e["kind"], e.get("ser"))
        if len(cur) >= target and key != last:
            groups.append(cur)
            cur = []
        cur.append(e)
        last = key
    groups.append(cur)
    pr.validate("TraceAtmosphere", None, name="atmosphere-calls", groups=groups, timeout=1500, env=atm)
    return pr.finish(
        rule="both shipped copies on ascending series over [0, 120] km (regular + random), every layer boundary +- 60 ulps, pressures "
             "on a geometric grid + tabulated base pressures +- 30 ulps + random, as arrays, 0-d arrays and scalars; end points 0 / inf; "
             "distinct = distinct events",
        assumptions=["the layer table is data of the implementation (nuspacesim.constants), exported to TLC and checked for soundness "
                     "(TableSound: continuity of base pressures within 3e-7)"],
        trusted=["TLC + Float64 override"])


def replay(path):
    import json
    print(json.dumps(json.load(open(path))["violations"][:3], indent=1)[:4000])
    return 1
