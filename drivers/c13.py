"""C13 - target-mode geometry and the dark-sky cut.

spec      : GeomTarget.tla; MCGeomTarget lattice (triangle identities for every kept direction, keep rule = conjunction,
            Dark monotone in each threshold)
code->spec: RegionGeomToO.throw / __call__ and ToOEvent.sun_moon_cut over configurations (source, start, duration, N, detector
            position, limb angle, thresholds); celestial positions are computed by the harness with astropy from the
            configuration values; TLC decides keep rule, time grid, triangle and dark-sky booleans per instant
"""
import numpy as np

from nssverif import use_repo, sky, par
from nssverif.f64 import bits
from nssverif.kit import PropertyRun
from nssverif.pipeline import make_config


def one_config(job):
    use_repo()
    from nuspacesim.simulation.geometry.region_geometry import RegionGeomToO
    rng = np.random.default_rng(job["seed"])
    ev = []
    for ic in range(job["nconf"]):
        spec = {"mode": "Target",
                "ra": float(rng.uniform(0, 2 * np.pi)), "dec": float(np.arcsin(rng.uniform(-1, 1))),
                "obst": float(rng.choice([600.0, 3600.0, 86400.0, 5 * 86400.0, 12345.678])),
                "date": "%04d-%02d-%02dT%02d:%02d:00" % (rng.integers(2016, 2024), rng.integers(1, 13), rng.integers(1, 28),
                                                          rng.integers(0, 24), rng.integers(0, 60)),
                "det_lat": float(np.arcsin(rng.uniform(-1, 1))), "det_lon": float(rng.uniform(-np.pi, np.pi)),
                "altitude": float(rng.choice([5.0, 33.0, 525.0, 1000.0, 36000.0])),
                "limb": float(np.radians(rng.choice([0.5, 3.0, 7.0, 20.0])))}
        if ic == 0 and job["seed"] % 3 == 0:
            # windows that start on / span a UTC day ending in a leap second (86401 s long): the instants are t0 + k T / N in elapsed seconds
            lp = [("2016-12-31T12:00:00", 86400.0), ("2016-12-31T23:59:30", 60.0), ("2015-06-30T18:00:00", 7 * 86400.0)][(job["seed"] // 3) % 3]
            spec["date"], spec["obst"] = lp
        cfg = make_config(spec)
        sm = cfg.detector.sun_moon
        sm.sun_alt_cut = float(np.radians(rng.choice([-18.0, -12.0, -6.0, 0.0])))
        sm.moon_alt_cut = float(np.radians(rng.choice([0.0, -5.0, 10.0])))
        sm.moon_min_phase_angle_cut = float(np.radians(rng.choice([150.0, 90.0, 170.0])))
        N = int(rng.choice([1, 7, 50, job["ninst"], int(rng.integers(2, 400)), int(rng.integers(2, 400))]))
        g = RegionGeomToO(cfg)
        H, R = float(g.core_alt), float(g.earth_radius)
        ip, t = cfg.detector.initial_position, cfg.simulation.target
        meta0 = dict(spec, N=N)
        # the time grid alone, for a run of consecutive N (cheap: no coordinate transforms)
        n0 = int(rng.integers(1, 3500))
        for NN in list(range(n0, n0 + 40)) + [49, 98, 103, 196, 1000, 1700]:
            tt = g.generate_times(int(NN))
            off = np.atleast_1d((tt - g.too_source.eventtime).sec)
            ev.append({"kind": "grid", "N": int(NN), "T": bits(t.source_obst), "tsec": [bits(x) for x in off],
                       "_m": dict(meta0, grid_N=int(NN), count=int(len(off)))})
        for entry in ("throw", "call"):
            if entry == "throw":
                g.throw(N)
                ret_len = None
            else:
                out = g(N)
                ret_len = [len(np.atleast_1d(x)) for x in out]
            k = np.arange(N)
            tsec = (g.times - g.too_source.eventtime).sec
            times_h = sky.times_of(t.source_date, t.source_date_format, k * t.source_obst / N)
            alt_h, _ = sky.source_altaz(t.source_RA, t.source_DEC, ip.latitude, ip.longitude, ip.altitude, times_h)
            h = np.asarray(g.horizon_mask)
            kept = np.zeros(N, dtype=bool)
            kept[np.flatnonzero(h)[np.asarray(g.volume_mask)]] = True
            beta = np.full(N, 0.0); theta = np.full(N, 0.0); path = np.full(N, 0.0)
            acc = [np.atleast_1d(np.asarray(x, dtype=float)) for x in (g.beta_rad(), g.thetas(), g.pathLens())]
            for x in acc:
                ev.append({"kind": "ret", "nkept": int(kept.sum()), "nret": int(len(x)), "_m": dict(meta0, entry=entry + " accessors")})
            if all(len(x) == int(kept.sum()) for x in acc):
                beta[kept], theta[kept], path[kept] = acc
            for i in range(N):
                ev.append({"kind": "inst", "k": int(i), "N": N, "T": bits(t.source_obst), "tsec": bits(tsec[i]), "alt": bits(alt_h[i]),
                           "H": bits(H), "R": bits(R), "limb": bits(cfg.simulation.angle_from_limb), "kept": bool(kept[i]),
                           "beta": bits(beta[i]), "theta": bits(theta[i]), "path": bits(path[i]),
                           "_m": dict(meta0, entry=entry, k=int(i), alt_deg=float(np.degrees(alt_h[i])), kept=bool(kept[i]))})
            if ret_len is not None:
                for n in ret_len:
                    ev.append({"kind": "ret", "nkept": int(kept.sum()), "nret": int(n), "_m": dict(meta0, entry=entry)})
        # dark-sky cut at every instant of the last throw (and at a few odd instants)
        sa, ma, ph = sky.sun_moon(ip.latitude, ip.longitude, ip.altitude, times_h)
        dark = np.atleast_1d(g.too_source.sun_moon_cut(g.times))
        for i in range(N):
            ev.append({"kind": "sky", "sunAlt": bits(sa[i]), "moonAlt": bits(ma[i]), "phase": bits(ph[i]), "sunCut": bits(sm.sun_alt_cut),
                       "moonCut": bits(sm.moon_alt_cut), "minPhase": bits(sm.moon_min_phase_angle_cut), "dark": bool(dark[i]),
                       "_m": dict(meta0, k=int(i), sun_deg=float(np.degrees(sa[i])), moon_deg=float(np.degrees(ma[i])),
                                  phase_deg=float(np.degrees(ph[i])), dark=bool(dark[i]))})
    if job.get("long_sky"):
        # one dark-sky evaluation over an array of more than 4096 instants (the cut must be evaluated at EVERY event time)
        nlong = job["long_sky"]
        off = np.sort(rng.uniform(0.0, t.source_obst, nlong))
        tl = sky.times_of(t.source_date, t.source_date_format, off)
        sa, ma, ph = sky.sun_moon(ip.latitude, ip.longitude, ip.altitude, tl)
        dark = np.atleast_1d(g.too_source.sun_moon_cut(tl))
        idx = sorted(set(list(range(0, nlong, max(1, nlong // 60))) + list(range(nlong - 25, nlong)) + [4095, 4096, 4097]))
        for i in idx:
            ev.append({"kind": "sky", "sunAlt": bits(sa[i]), "moonAlt": bits(ma[i]), "phase": bits(ph[i]), "sunCut": bits(sm.sun_alt_cut),
                       "moonCut": bits(sm.moon_alt_cut), "minPhase": bits(sm.moon_min_phase_angle_cut),
                       "dark": bool(dark[i]) if i < len(dark) else False,
                       "_m": dict(meta0, k=int(i), long_array=nlong, sun_deg=float(np.degrees(sa[i])), moon_deg=float(np.degrees(ma[i])),
                                  phase_deg=float(np.degrees(ph[i])))})
        ev.append({"kind": "ret", "nkept": nlong, "nret": int(len(dark)), "_m": dict(meta0, entry="sun_moon_cut over a long array")})
    if job.get("long_throw"):
        # one throw of more instants than any internal block size (2**16), not a multiple of it: a sample of the instants (both ends,
        # around every multiple of 4096, random ones) is judged like any other instant; a day-long window so that the source sets and rises
        NL = job["long_throw"]
        # (input selection only: the window length is chosen so that the source is occulted within the limit near the END of the window)
        spec = dict(spec, altitude=525.0, limb=float(np.radians(20.0)))     # a wide band of kept instants (about 80 minutes per pass)
        meta0 = dict(spec, N=NL)
        cfg0 = make_config(dict(spec, obst=86400.0))
        ip0, t0 = cfg0.detector.initial_position, cfg0.simulation.target
        grid = np.linspace(0.0, 86400.0, 1441)
        a0, _ = sky.source_altaz(t0.source_RA, t0.source_DEC, ip0.latitude, ip0.longitude, ip0.altitude, sky.times_of(t0.source_date, t0.source_date_format, grid))
        dip = np.arccos(6371.0 / (6371.0 + spec["altitude"]))
        band = np.flatnonzero((np.asarray(a0) < -dip) & (np.asarray(a0) > -dip - min(spec["limb"], np.radians(30.0))) & (grid > 3600.0))
        obstL = float(grid[band[len(band) // 2]] / 0.968) if len(band) else 86400.0
        cfgL = make_config(dict(spec, obst=obstL))
        gL = RegionGeomToO(cfgL)
        tL = cfgL.simulation.target
        gL.throw(NL)
        pickL = set(range(8)) | set(range(NL - 40, NL)) | set(int(i) for i in rng.integers(0, NL, 120)) | set(range(NL - NL % 65536, NL, 97))
        for kk in range(4096, NL, 4096):
            pickL |= {kk - 1, kk}
        pickL = np.array(sorted(pickL))
        tsecL = np.atleast_1d((gL.times - gL.too_source.eventtime).sec)
        ev.append({"kind": "ret", "nkept": NL, "nret": int(len(tsecL)), "_m": dict(meta0, entry="long throw: instants")})
        hL = np.asarray(gL.horizon_mask)
        if len(tsecL) == NL and len(hL) == NL:
            keptL = np.zeros(NL, dtype=bool)
            keptL[np.flatnonzero(hL)[np.asarray(gL.volume_mask)]] = True
            bL = np.zeros(NL); thL = np.zeros(NL); pL = np.zeros(NL)
            accL = [np.atleast_1d(np.asarray(x, dtype=float)) for x in (gL.beta_rad(), gL.thetas(), gL.pathLens())]
            if all(len(x) == int(keptL.sum()) for x in accL):
                bL[keptL], thL[keptL], pL[keptL] = accL
            ipL = cfgL.detector.initial_position
            th = sky.times_of(tL.source_date, tL.source_date_format, pickL * tL.source_obst / NL)
            altL, _ = sky.source_altaz(tL.source_RA, tL.source_DEC, ipL.latitude, ipL.longitude, ipL.altitude, th)
            for j, i in enumerate(pickL):
                ev.append({"kind": "inst", "k": int(i), "N": NL, "T": bits(tL.source_obst), "tsec": bits(tsecL[i]), "alt": bits(altL[j]),
                           "H": bits(float(gL.core_alt)), "R": bits(float(gL.earth_radius)), "limb": bits(cfgL.simulation.angle_from_limb),
                           "kept": bool(keptL[i]), "beta": bits(bL[i]), "theta": bits(thL[i]), "path": bits(pL[i]),
                           "_m": dict(meta0, entry="long throw", k=int(i), N=NL, alt_deg=float(np.degrees(altL[j])), kept=bool(keptL[i]))})
    return ev


def run(tier="quick", seed=0):
    pr = PropertyRun("C13", tier, seed)
    thorough = tier == "thorough"
    pr.model_check("MCGeomTarget", workers=16, timeout=900)
    jobs = [{"seed": seed * 1000 + j, "nconf": 20 if thorough else 3, "ninst": 400 if thorough else 150,
             "long_sky": (9000 if thorough else 4500) if j < (4 if thorough else 2) else 0,
             "long_throw": (140003 if thorough else 70001) if j in (2, 3) else 0} for j in range(42 if thorough else 14)]
    res = par.pmap(one_config, jobs, workers=14)
    ev = [e for r in res for e in r]
    pr.validate("TraceGeomTarget", ev, name="target-geometry", chunks=16)
    kept = sum(1 for e in ev if e["kind"] == "inst" and e["kept"])
    dark = sum(1 for e in ev if e["kind"] == "sky" and e["dark"])
    pr.note(instants=sum(1 for e in ev if e["kind"] == "inst"), kept=kept, sky_events=sum(1 for e in ev if e["kind"] == "sky"), dark=dark)
    return pr.finish(
        rule="random configurations (RA, Dec, start 2016-2023, duration 10 min - 5 d, N in {1, 7, 50, many}, detector lat/lon/altitude 5 km - "
             "36000 km, limb angle, sun/moon thresholds); one event per sampled instant for throw and __call__, one per dark-sky decision; "
             "distinct = distinct events",
        assumptions=["astropy is the environment for celestial positions, queried by the harness from configuration values",
                     "booleans decided within 1e-9 rad of a threshold are inconclusive (not judged)"],
        trusted=["TLC + Float64 override", "astropy coordinates / ephemerides"])


def replay(path):
    import json
    print(json.dumps(json.load(open(path))["violations"][:3], indent=1)[:4000])
    return 1
