"""C04 - tau energy sampling is the exact inverse transform of the propagation tables.

spec      : GridInterp.tla + TauTables.tla over the shipped tables as constants (h5py -> JSON bit pairs);
            MCGridInterp: exhaustive small integer grids: the inverse defined by the forward map is well defined,
            monotone and in range
code->spec: grid_cdf_sampler / Taus.tau_energy on the three shipped tables; TLC evaluates F(z | e, beta) per event
"""
from nssverif import par, tables
from nssverif.kit import PropertyRun
from drivers import tau_common


def run(tier="quick", seed=0, which="c04", pid="C04"):
    pr = PropertyRun(pid, tier, seed)
    thorough = tier == "thorough"
    n = {"c04": 20000, "c05": 10000, "c07": 10000}[which] if thorough else {"c04": 900, "c05": 300, "c07": 400}[which]
    if which == "c04":
        pr.model_check("MCGridInterp", workers=8, timeout=900)
    if which == "c07":
        pr.model_check("MCKinematics", workers=4, timeout=300)
    paths = {v: tables.export_tau(v) for v in (1, 2, 3)}
    for v in (1, 2, 3):
        pr.model_check("MCTauTables", workers=2, heap="4g", env={"TABLE_FILE": paths[v]}, timeout=900)
    jobs = [{"which": which, "version": v, "n": n, "seed": seed + 17 * v + r} for v in (1, 2, 3) for r in range(6 if thorough else 1)]
    res = par.pmap(tau_common.job, jobs, workers=12)
    for v in (1, 2, 3):
        ev = [e for ver, evs in res if ver == v for e in evs]
        pr.validate("TraceTau", ev, name=f"table-{v}", chunks=5, env={"TABLE_FILE": paths[v]}, heap="3g", timeout=1500)
    rules = {
        "c04": "grid_cdf_sampler / Taus.tau_energy on tables 1-3: (e, beta) on nodes, edges, cell centres and random points, groups of "
               "ascending u incl. u on tabulated CDF values, out-of-range angles and energies, explicit-u vs internal generator",
        "c05": "Taus.tau_exit_prob on all 25x51 nodes of tables 1-3, edges, centres, random points, clamps and out-of-range energies, "
               "several calls with different batch compositions on one object",
        "c07": "Taus.__call__ and EAS.altDec over energies 10^6..10^12 GeV, beta in [0, 42 deg], u in [5e-324, 1], four shower fractions; "
               "monotonicity pairs",
    }
    return pr.finish(rule=rules[which] + "; distinct = distinct events",
                     assumptions=["tables exported with h5py directly from the shipped files are the specification constants",
                                  "tolerance 1e-12 on F(z) = u and on Close(code, spec)"],
                     trusted=["TLC + Float64 override", "h5py"])


def replay(path):
    import json
    print(json.dumps(json.load(open(path))["violations"][:3], indent=1)[:4000])
    return 1
