"""C03 - reported acceptance integrals follow from stored event columns and trigger rules.

spec      : Acceptance.tla (estimators in Float64), MCAcceptance (lattice on the thresholds: permutation invariance,
            threshold monotonicity, <= 0.826 x geometric, dark-sky only removes / optical-target only, / thrown)
code->spec: (i) direct mcintegral calls on thrown geometry objects with constructed trigger arrays (equality cases);
            (ii) header values + columns of full compute() runs; every evaluation is one trace event recomputed by TLC
"""
import numpy as np

from nssverif import par, use_repo, pipeline, sky
from nssverif.f64 import bits
from nssverif.kit import PropertyRun
from nssverif.bufs import Reuse

BUF = Reuse()     # argument arrays persist across mcintegral calls (refilled): identity-keyed state must not matter


def _ev(beta, theta, cosTrV, path, pexit, lenDec, trig, cosEff, dark, contrib=0.0):
    return {"beta": bits(beta), "theta": bits(theta), "cosTrV": bits(cosTrV), "path": bits(path), "pexit": bits(pexit),
            "lenDec": bits(lenDec), "trig": bits(trig), "cosEff": bits(cosEff), "dark": bool(dark), "contrib": bits(contrib)}


def _run(mode, method, smc, thrown, H, R, mcnorm, thr, norm, wsum):
    return {"mode": mode, "method": method, "sunMoonCut": bool(smc), "thrown": int(thrown), "H": bits(H), "R": bits(R),
            "mcnorm": bits(mcnorm), "thr": bits(thr), "specNorm": bits(norm), "specWsum": bits(wsum)}


def _out(res):
    return {"int": bits(res[0]), "geo": bits(res[1]), "npass": int(res[2])}


def direct_diffuse(job):
    use_repo()
    from nuspacesim.simulation.geometry.region_geometry import RegionGeom
    rng = np.random.default_rng(job["seed"])
    events = []
    for spec in job["specs"]:
        cfg = pipeline.make_config(spec)
        g = RegionGeom(cfg)
        g.throw(rng.random((4, job["thrown"])))
        m = np.asarray(g.event_mask)
        nv = int(m.sum())
        if nv == 0:
            continue
        cosTrV = np.asarray(g.costhetaTrSubV)[m]
        beta, theta, path = g.beta_rad(), g.thetas(), g.pathLens()
        for k in range(job["calls"]):
            method = "Optical" if k % 2 == 0 else "Radio"
            thr = float(rng.choice([1.0, 5.0, 10.0, 37.5]))
            trig = thr * 10.0 ** rng.normal(0.0, 0.7, nv)
            sel = rng.random(nv)
            trig[sel < 0.15] = thr                                   # exactly on the threshold: passes
            trig[(sel >= 0.15) & (sel < 0.25)] = np.nextafter(thr, 0)    # one ulp below: does not
            trig[(sel >= 0.25) & (sel < 0.3)] = 0.0
            if method == "Optical" or k % 4 == 1:
                cosEff = np.cos(np.radians(rng.uniform(0.1, 6.0, nv)))
                s2 = rng.random(nv)
                cosEff[s2 < 0.2] = cosTrV[s2 < 0.2]                  # detector exactly on the cone: inside
                cosEff[(s2 >= 0.2) & (s2 < 0.3)] = np.nextafter(cosTrV[(s2 >= 0.2) & (s2 < 0.3)], 2.0)   # just outside
                cosEff[(s2 >= 0.3) & (s2 < 0.35)] = 1.0
                cosArg = cosEff
            else:
                c0 = float(np.cos(cfg.simulation.max_cherenkov_angle)) if k % 8 != 3 else float(cosTrV[rng.integers(nv)])
                cosEff = np.full(nv, c0)
                cosArg = c0
            pexit = 10.0 ** rng.uniform(-7.0, 0.0, nv)
            pexit[rng.random(nv) < 0.1] = 1.0
            norm, wsum = (1.0, 1.0) if k % 3 == 0 else (float(10 ** rng.uniform(-3, 3)), float(10 ** rng.uniform(-3, 3)))
            lenDec = rng.uniform(0, 50, nv)
            res = g.mcintegral(BUF("trig", trig), cosArg if np.isscalar(cosArg) else BUF("cos", cosArg), BUF("pexit", pexit), thr, norm, wsum,
                               lenDec=BUF("lenDec", lenDec), method=method)
            events.append({
                "kind": "mc", "run": _run("Diffuse", method, g.sun_moon_cut, len(g.betaTrSubN), g.core_alt, g.earth_radius,
                                          g.mcnorm, thr, norm, wsum),
                "evs": [_ev(beta[i], theta[i], cosTrV[i], path[i], pexit[i], lenDec[i], trig[i], cosEff[i], True) for i in range(nv)],
                "out": _out(res), "unitSpectrum": norm * wsum == 1.0, "hasContrib": False,
                "_m": {"src": "direct", "mode": "Diffuse", "method": method, "spec": spec, "call": k, "nvalid": nv,
                       "out": [float(res[0]), float(res[1]), int(res[2])]}})
    return events


def direct_target(job):
    use_repo()
    from nuspacesim.simulation.geometry.region_geometry import RegionGeomToO
    rng = np.random.default_rng(job["seed"])
    events = []
    for spec in job["specs"]:
        cfg = pipeline.make_config(spec)
        g = RegionGeomToO(cfg)
        for rethrow in ((False,) if spec.get("no_rethrow") else (False, True)):
            if not rethrow:
                g.throw(int(spec["thrown"]))
            else:
                # the SAME object thrown again with the same instants in reverse order (same number of survivors, other event times):
                # whatever the object remembers from the first throw must not leak into the integrals
                n = int(spec["thrown"])
                g.throw((np.arange(n) / n)[::-1].copy())
            events += _target_calls(g, cfg, spec, rng, max(2, job["calls"] // 2) if rethrow else job["calls"], rethrow)
        # coarse sampling: explicit instants of which exactly ONE (then two) is observable - a single surviving trajectory is a valid run
        if spec.get("no_rethrow"):
            continue
        try:
            n = int(spec["thrown"])
            g.throw(n)
            h = np.asarray(g.horizon_mask)
            v = np.zeros_like(h)
            v[h] = np.asarray(g.volume_mask)
            good, bad = np.flatnonzero(v), np.flatnonzero(~v)
            frac = np.arange(n) / n
            if len(good) >= 2 and len(bad) >= 3:
                for take in (1, 2):
                    sel = np.sort(np.concatenate([good[:: max(1, len(good) // take)][:take], bad[:3]]))
                    g.throw(frac[sel].copy())
                    if len(g.pathLens()) == take:
                        events += _target_calls(g, cfg, dict(spec, survivors=take), rng, 4, True)
        except Exception:
            pass
    return events


def _target_calls(g, cfg, spec, rng, ncalls, rethrow):
    events = []
    job = {"calls": ncalls}
    if True:
        nv = len(g.pathLens())
        if nv == 0:
            return events
        beta, theta, path = np.asarray(g.beta_rad()), np.asarray(g.thetas()), np.asarray(g.pathLens())
        ip, sm = cfg.detector.initial_position, cfg.detector.sun_moon
        sa, ma, ph = sky.sun_moon(ip.latitude, ip.longitude, ip.altitude, g.val_times())
        dark = sky.dark(sa, ma, ph, sm.sun_alt_cut, sm.moon_alt_cut, sm.moon_min_phase_angle_cut)
        margin = min(np.min(np.abs(sa - sm.sun_alt_cut)), np.min(np.abs(ma - sm.moon_alt_cut)),
                     np.min(np.abs(ph - sm.moon_min_phase_angle_cut)))
        if margin < 1e-9:
            return events    # a dark-sky boolean decided within 1e-9 rad of a threshold is inconclusive
        for k in range(job["calls"]):
            method = "Optical" if k % 2 == 0 else "Radio"
            thr = float(rng.choice([1.0, 5.0, 10.0]))
            trig = thr * 10.0 ** rng.normal(0.3, 0.7, nv)
            sel = rng.random(nv)
            trig[sel < 0.15] = thr
            trig[(sel >= 0.15) & (sel < 0.25)] = np.nextafter(thr, 0)
            cosEff = np.cos(np.radians(rng.uniform(0.1, 6.0, nv)))
            if method == "Radio":
                cosEff[:] = float(np.cos(cfg.simulation.max_cherenkov_angle))
            cosArg = cosEff.copy() if method == "Optical" else float(cosEff[0])
            pexit = 10.0 ** rng.uniform(-7.0, 0.0, nv)
            lenDec = path * rng.uniform(0.0, 1.3, nv)
            s3 = rng.random(nv)
            lenDec[s3 < 0.1] = path[s3 < 0.1]            # decay exactly at the detector distance: contributes 0
            lenDec[(s3 >= 0.1) & (s3 < 0.2)] = 0.0
            norm, wsum = (1.0, 1.0) if k % 3 == 0 else (float(10 ** rng.uniform(-3, 3)), float(10 ** rng.uniform(-3, 3)))
            stored = {}
            res = g.mcintegral(BUF("trig", trig), cosArg if np.isscalar(cosArg) else BUF("cos", cosArg), BUF("pexit", pexit), thr, norm, wsum,
                               lenDec=BUF("lenDec", lenDec), method=method,
                               store=lambda names, cols: stored.update(zip(names, cols)))
            contrib = np.asarray(list(stored.values())[0]) if stored else None
            events.append({
                "kind": "mc", "run": _run("Target", method, g.sun_moon_cut, len(g.times), g.core_alt, g.earth_radius, 1.0,
                                          thr, norm, wsum),
                "evs": [_ev(beta[i], theta[i], 0.0, path[i], pexit[i], lenDec[i], trig[i], cosEff[i], dark[i],
                            0.0 if contrib is None else contrib[i]) for i in range(nv)],
                "out": _out(res), "unitSpectrum": norm * wsum == 1.0, "hasContrib": contrib is not None,
                "_m": {"src": "direct", "mode": "Target", "method": method, "spec": spec, "call": k, "nvalid": nv, "rethrown": rethrow,
                       "ndark": int(dark.sum()), "out": [float(res[0]), float(res[1]), int(res[2])]}})
    return events


def table_events(sim, cfg, src):
    """acceptance events of a finished run, from the table columns and header values only"""
    use_repo()
    from nuspacesim.simulation.geometry.region_geometry import RegionGeom
    from nuspacesim.simulation.eas_radio.radio_antenna import calculate_snr
    if len(sim) == 0:
        return []
    mode = cfg.simulation.mode
    g = RegionGeom(cfg)
    ip, sm = cfg.detector.initial_position, cfg.detector.sun_moon
    n = len(sim)
    beta, theta, path = (np.asarray(sim[c], dtype=float) for c in ("beta_rad", "theta_rad", "path_len"))
    pexit, lenDec = np.asarray(sim["tauExitProb"], dtype=float), np.asarray(sim["lenDec"], dtype=float)
    dark = np.ones(n, dtype=bool)
    if mode == "Target":
        sa, ma, ph = sky.sun_moon(ip.latitude, ip.longitude, ip.altitude, sim["times"])
        dark = sky.dark(sa, ma, ph, sm.sun_alt_cut, sm.moon_alt_cut, sm.moon_min_phase_angle_cut)
    out = []

    def mval(k):
        v = sim.meta[k]
        return v[0] if isinstance(v, tuple) else v

    chans = []
    if "OMCINT" in sim.meta:
        chans.append(("Optical", np.asarray(sim["numPEs"], dtype=float), np.asarray(sim["costhetaChEff"], dtype=float),
                      cfg.detector.optical.photo_electron_threshold, ("OMCINT", "OMCINTGO", "ONEVPASS"), "tmcintopt"))
    if "RMCINT" in sim.meta:
        r = cfg.detector.radio
        snr = calculate_snr(np.asarray(sim["EFields"]), (r.low_frequency, r.high_frequency), ip.altitude, r.nantennas, r.gain)
        chans.append(("Radio", np.asarray(snr, dtype=float), np.full(n, float(np.cos(cfg.simulation.max_cherenkov_angle))),
                      r.snr_threshold, ("RMCINT", "RMCINTGO", "RNEVPASS"), "tmcintrad"))
    for method, trig, cosEff, thr, keys, ccol in chans:
        if not np.all(np.isfinite(trig)):
            continue      # outside the quantifier of C03 (finite trigger values); C20 decides finiteness
        contrib = np.asarray(sim[ccol], dtype=float) if ccol in sim.colnames else None
        cosTrV = np.cos(theta) if mode == "Diffuse" else np.zeros(n)
        out.append({
            "kind": "mc", "run": _run(mode, method, sm.sun_moon_cuts, cfg.simulation.thrown_events, g.core_alt, g.earth_radius,
                                      g.mcnorm if mode == "Diffuse" else 1.0, thr, 1.0, 1.0),
            "evs": [_ev(beta[i], theta[i], cosTrV[i], path[i], pexit[i], lenDec[i], trig[i], cosEff[i], dark[i],
                        0.0 if contrib is None else contrib[i]) for i in range(n)],
            "out": {"int": bits(mval(keys[0])), "geo": bits(mval(keys[1])), "npass": int(mval(keys[2]))},
            "unitSpectrum": True, "hasContrib": contrib is not None,
            "_m": dict(src, mode=mode, method=method, rows=n, out=[float(mval(keys[0])), float(mval(keys[1])), int(mval(keys[2]))],
                       npass_possible=int(np.sum(trig >= thr)))})
    return out


def e2e_job(job):
    # pilot run with the same seed: put each channel's threshold at the median of its own positive trigger values, so
    # that about half of the signal events pass and the two channels' thresholds differ (wiring mistakes show)
    spec = dict(job["spec"])
    ev, sim = pipeline.run_compute(spec, job["seed"], "sync", False, None, keep_table=True)
    if sim is None or len(sim) == 0:
        return []
    use_repo()
    from nuspacesim.simulation.eas_radio.radio_antenna import calculate_snr
    cfg = pipeline.make_config(spec)
    pes = np.asarray(sim["numPEs"], dtype=float) if "numPEs" in sim.colnames else np.array([])
    if np.any(pes > 0):
        spec["pe_thr"] = float(np.median(pes[pes > 0]))
    if "EFields" in sim.colnames:
        r = cfg.detector.radio
        snr = np.asarray(calculate_snr(np.asarray(sim["EFields"]), (r.low_frequency, r.high_frequency),
                                       cfg.detector.initial_position.altitude, r.nantennas, r.gain), dtype=float)
        if np.any(snr > 0):
            spec["snr_thr"] = float(np.median(snr[snr > 0]))
    job = dict(job, spec=spec)
    ev, sim = pipeline.run_compute(job["spec"], job["seed"], "sync", False, None, keep_table=True)
    if sim is None:
        return []
    return table_events(sim, pipeline.make_config(job["spec"]), {"src": "run", "spec": job["spec"], "seed": job["seed"]})


def _dispatch(job):
    return {"dd": direct_diffuse, "dt": direct_target, "e2e": e2e_job}[job["t"]](job)


def run(tier="quick", seed=0):
    pr = PropertyRun("C03", tier, seed)
    thorough = tier == "thorough"
    pr.model_check("MCAcceptance", "MCAcceptanceDeep.cfg" if thorough else "MCAcceptance.cfg", workers=16, heap="6g", timeout=1800)
    dspecs = [{"mode": "Diffuse"}, {"mode": "Diffuse", "altitude": 33.0, "limb": 0.05, "cher": 0.3},
              {"mode": "Diffuse", "altitude": 2000.0, "cher": 0.02, "limb": 0.2}, {"mode": "Diffuse", "altitude": 5.0, "limb": 0.01}]
    # (non-default dark-sky limits: Moon limit +10 deg / -6 deg, Sun limit 0 deg / -12 deg, phase limit 90 deg - over a month so that the
    # Moon is up and bright at part of the instants)
    tspecs = [{"mode": "Target", "thrown": 700},
              {"mode": "Target", "thrown": 700, "obst": 2.4e6, "set": {"detector.sun_moon.moon_alt_cut": float(np.radians(10.0)),
                                                                        "detector.sun_moon.sun_alt_cut": float(np.radians(-12.0))}},
              {"mode": "Target", "thrown": 700, "obst": 2.4e6, "set": {"detector.sun_moon.moon_alt_cut": float(np.radians(-6.0)),
                                                                        "detector.sun_moon.sun_alt_cut": 0.0,
                                                                        "detector.sun_moon.moon_min_phase_angle_cut": float(np.radians(90.0))}},
              {"mode": "Target", "thrown": 500, "sun_moon_cuts": False},
              {"mode": "Target", "thrown": 600, "ra": 2.1, "dec": 0.4, "date": "2023-01-15T00:00:00", "altitude": 33.0}]
    jobs = []
    reps = 12 if thorough else 2
    for i in range(reps):
        for s in dspecs:
            jobs.append({"t": "dd", "specs": [s], "seed": seed + 10 + i, "thrown": 40, "calls": 24 if thorough else 16})
        for s in tspecs:
            jobs.append({"t": "dt", "specs": [s], "seed": seed + 50 + i, "calls": 24 if thorough else 12})
    # MANY surviving instants in one Target integral (more than 4096, not a multiple of any block size), over a month so that day and night,
    # Moon up and down all occur among them: the dark-sky condition is evaluated at EACH event time
    jobs.append({"t": "dt", "specs": [dict(tspecs[1], thrown=100003 if not thorough else 200003, no_rethrow=True)], "seed": seed + 77, "calls": 2})
    e2e = [{"mode": "Diffuse", "thrown": 300, "log_e": 9.0, "pe_thr": 0.5, "snr_thr": 0.5},
           {"mode": "Diffuse", "thrown": 300, "spectrum": "power", "cloud": "uniform", "altitude": 33.0, "limb": 0.05, "pe_thr": 1.0},
           {"mode": "Target", "thrown": 1500, "log_e": 9.0, "pe_thr": 0.5, "snr_thr": 0.5},
           {"mode": "Target", "thrown": 1200, "spectrum": "power", "sun_moon_cuts": False, "pe_thr": 1.0}]
    if thorough:
        e2e += [dict(s, cloud=c, altitude=a) for s in e2e for c in ("none", "map") for a in (525.0, 1000.0)]
    for i, s in enumerate(e2e):
        for sd in range(3 if thorough else 1):
            jobs.append({"t": "e2e", "spec": s, "seed": seed + 100 + i + 1000 * sd})
    res = par.pmap(_dispatch, jobs, workers=14)
    events = [e for r in res for e in r]
    pr.validate("TraceAcceptance", events, name="mcintegral-evaluations", chunks=16)
    src = {}
    for e in events:
        k = (e["_m"]["src"], e["_m"]["mode"], e["_m"]["method"])
        src[str(k)] = src.get(str(k), 0) + 1
    nz = sum(1 for e in events if e["_m"]["out"][0] != 0.0)
    pr.note(evaluations_by_source=src, nonzero_integrals=nz)
    return pr.finish(
        rule="mcintegral evaluations: direct calls on thrown RegionGeom / RegionGeomToO objects with trigger / cone / decay-length "
             "values placed on and one ulp off the cut values, and header values of full runs recomputed from table columns; "
             "distinct = distinct evaluation events",
        assumptions=["dark-sky booleans are computed by the harness with astropy directly from configuration values",
                     "radio trigger = public calculate_snr applied to the EFields column", "tolerance 1e-9 relative on sums"],
        trusted=["TLC + Float64 override", "astropy ephemerides"])


def replay(path):
    import json
    print(json.dumps(json.load(open(path))["violations"][:3], indent=1)[:4000])
    return 1
