"""C18 - gridded lookup tables: loss-free files, exact slicing, sound shipped data.

spec      : GridFile.tla (register semantics of a file), GridInterp.tla (Cell/Lerp/PWLinear), TauTables.tla soundness
            predicates evaluated by TLC on ALL nodes of all six shipped files (MCTauTables ASSUMEs)
code->spec: NssGrid.write/read in HDF5 and FITS over small grids (1-4 dims, f8/f4/i4/i8, ASCII / Unicode names),
            grid_slice_interp on nodes / midpoints / thirds, vec_1d_interp rows with plateaus (TraceGrid.tla)
"""
import itertools
import os
import shutil
import tempfile

import numpy as np

from nssverif import use_repo, tables
from nssverif.f64 import bits, bits_array
from nssverif.kit import PropertyRun


def _proj(g):
    data = np.asarray(g.data)
    return {"shape": [int(x) for x in data.shape], "names": [[ord(c) for c in str(n)] for n in g.axis_names],
            "axes": [bits_array(np.asarray(a, dtype=float)) for a in g.axes],
            "data": bits_array(np.asarray(data, dtype=float).ravel())}


def events(seed, n):
    use_repo()
    from nuspacesim.utils.grid import NssGrid
    from nuspacesim.utils.interp import grid_slice_interp, vec_1d_interp
    rng = np.random.default_rng(seed)
    tmp = tempfile.mkdtemp(prefix="nsv-c18-")
    ev = []
    names_ascii = ["log_e_nu", "beta_rad", "z", "AX3", "a b", "x-1"]
    names_uni = ["β_rad", "énergie", "軸", "naïve axis"]
    try:
        case = 0
        for ndim in (1, 2, 3, 4):
            shapes = list(itertools.product(*[(1, 2, 3)] * ndim))
            rng.shuffle(shapes)
            for shape in shapes[: max(3, n // 8)]:
                for dt in ("f8", "f4", "i4", "i8"):
                    if rng.random() > (1.0 if ndim <= 2 else 0.5):
                        continue
                    case += 1
                    if dt[0] == "f":
                        data = rng.choice([0.0, 0.5, 1.0, -2.25, 1e-30, 3.0e20, 1 / 3], size=shape).astype(dt)
                    else:
                        data = rng.integers(-5, 2 ** 30, size=shape).astype(dt)
                    axes = [np.sort(rng.choice(np.arange(-8, 9) / 4.0 + rng.choice([0.0, 0.1, 1 / 3, 1e-9]), size=k, replace=False)) for k in shape]
                    for fmt in ("hdf5", "fits"):
                        pool = names_ascii if fmt == "fits" else names_ascii + names_uni
                        nm = [str(x) for x in rng.choice(pool, size=ndim, replace=False)]
                        g = NssGrid(data.copy(), [a.copy() for a in axes], nm)
                        # other grids come into being between construction and write (slices, interpolated slices, unrelated tables with
                        # other axis names and another number of axes): a grid's file is the grid's, whatever else exists in the process
                        decoy = NssGrid(np.arange(24.0).reshape(2, 3, 4), [np.arange(2.0), np.arange(3.0), np.arange(4.0)], ["d_x", "d_y", "d_z"])
                        decoy2 = decoy[1, :, :]
                        decoy3 = grid_slice_interp(decoy, 0.5, "d_x")
                        decoy4 = NssGrid(np.arange(5.0), [np.arange(5.0) * 0.5], ["solo"])
                        path = os.path.join(tmp, f"g{case}.{'h5' if fmt == 'hdf5' else 'fits'}")
                        slot = "p1" if fmt == "hdf5" else "p2"
                        meta = {"fmt": fmt, "shape": list(shape), "dtype": dt, "names": nm}
                        try:
                            # the file name as a str or as a path object (both name the same file)
                            import pathlib
                            g.write(pathlib.Path(path) if case % 3 == 1 else path, format=fmt)
                            ev.append({"kind": "Write", "path": slot, "grid": _proj(g), "_m": meta})
                            back = NssGrid.read(pathlib.Path(path) if case % 3 == 2 else path, format=fmt)
                            ev.append({"kind": "Read", "path": slot, "grid": _proj(back),
                                       "_m": dict(meta, back_dtype=str(np.asarray(back.data).dtype))})
                        except Exception as ex:
                            ev.append({"kind": "Write", "path": slot, "grid": _proj(g), "_m": meta})
                            ev.append({"kind": "Read", "path": slot,
                                       "grid": {"shape": [], "names": [], "axes": [], "data": []},
                                       "_m": dict(meta, error=repr(ex)[:300])})
                    # overwrite an existing path with a different grid and read again (register semantics)
                    if rng.random() < 0.3:
                        g2 = NssGrid(data.copy() * 2, [a.copy() for a in axes], nm)
                        p2 = os.path.join(tmp, f"g{case}.ow.fits")
                        g.write(p2, format="fits")
                        g2.write(p2, format="fits", overwrite=True)
                        ev.append({"kind": "Write", "path": "p3", "grid": _proj(g), "_m": {"fmt": "fits", "overwrite": 1}})
                        ev.append({"kind": "Write", "path": "p3", "grid": _proj(g2), "_m": {"fmt": "fits", "overwrite": 2}})
                        ev.append({"kind": "Read", "path": "p3", "grid": _proj(NssGrid.read(p2, format="fits")),
                                   "_m": {"fmt": "fits", "overwrite": "read"}})
                    # slices
                    if dt == "f8" and ndim >= 2:
                        g = NssGrid(data.astype(float), [a.copy() for a in axes], [f"n{k}" for k in range(ndim)])
                        for a in range(ndim):
                            ax = axes[a]
                            if len(ax) < 2:
                                continue
                            xs = list(ax) + [0.5 * (ax[0] + ax[1]), ax[0] + (ax[1] - ax[0]) / 3.0, ax[-2] + 2 * (ax[-1] - ax[-2]) / 3.0]
                            # coordinates NEXT TO a node (a few parts per million, 1e-9, one ulp): in between is in between
                            for kx in (0, len(ax) - 1, len(ax) // 2):
                                for dx in (1e-9, 3e-6 * (ax[-1] - ax[0]), 1e-5 * max(abs(ax[kx]), 1e-3)):
                                    for cand in (ax[kx] + dx, ax[kx] - dx, np.nextafter(ax[kx], np.inf), np.nextafter(ax[kx], -np.inf)):
                                        if ax[0] < cand < ax[-1] and cand not in ax:
                                            xs.append(float(cand))
                            xs = list(dict.fromkeys(float(x) for x in xs))
                            for x in xs:
                                for key in (a, f"n{a}"):
                                    try:
                                        r = _proj(grid_slice_interp(g, float(x), key))
                                        err = None
                                    except Exception as ex:       # a legal slice that raises: reported as an empty result
                                        r, err = {"shape": [-1], "names": [], "axes": [], "data": []}, repr(ex)[:200]
                                    ev.append({"kind": "Slice", "grid": _proj(g), "axis": a + 1, "x": bits(x), "res": r,
                                               "_m": {"shape": list(shape), "axis": key, "x": float(x), "error": err}})
        # HDF5 overwrite sequences: grid A, then a same-shape grid B of another dtype to the same file and path, then read
        for a_dt, b_dt in (("i4", "f8"), ("f4", "f8"), ("i4", "i8"), ("f8", "i4"), ("f8", "f8")):
            for h5path in ("/", "/nested/grid"):
                case += 1
                shape = (2, 3)
                A_ = (rng.integers(0, 100, size=shape)).astype(a_dt)
                B_ = (rng.integers(0, 2 ** 20, size=shape) * 4097 + (1 / 3 if b_dt[0] == "f" else 0)).astype(b_dt)
                if b_dt == "i8":
                    B_ = (B_.astype("i8") * 2 ** 20 + 7)
                axA = [np.array([0.0, 1.0]), np.array([1.0, 2.0, 3.0])]
                axB = [np.array([0.25, 1.0 / 3]), np.array([1.0, 2.5, 3.0 + 1e-9])]
                fn = os.path.join(tmp, f"ow{case}.h5")
                gA, gB = NssGrid(A_, axA, ["p", "q"]), NssGrid(B_, axB, ["p", "q"])
                meta = {"fmt": "hdf5", "overwrite": f"{a_dt}->{b_dt}", "path": h5path}
                try:
                    gA.write(fn, format="hdf5", path=h5path)
                    ev.append({"kind": "Write", "path": "p4", "grid": _proj(gA), "_m": meta})
                    gB.write(fn, format="hdf5", path=h5path, overwrite=True)
                    ev.append({"kind": "Write", "path": "p4", "grid": _proj(gB), "_m": meta})
                    ev.append({"kind": "Read", "path": "p4", "grid": _proj(NssGrid.read(fn, format="hdf5", path=h5path)), "_m": meta})
                except Exception as ex:
                    ev.append({"kind": "Write", "path": "p4", "grid": _proj(gB), "_m": meta})
                    ev.append({"kind": "Read", "path": "p4", "grid": {"shape": [], "names": [], "axes": [], "data": []},
                               "_m": dict(meta, error=repr(ex)[:300])})
        # row-wise interpolation on non-decreasing rows with plateaus, queries strictly inside the row range
        for _ in range(max(10, n)):
            k = int(rng.integers(3, 9))
            m = int(rng.integers(1, 6))
            rows = np.sort(rng.choice(np.arange(0, 9) / 8.0, size=(m, k)), axis=1)
            rows[:, 0] = 0.0
            rows[:, -1] = 1.0
            ys = np.sort(rng.uniform(-3, 3, k))
            x = rng.choice(np.arange(1, 16) / 16.0, size=m)
            y = vec_1d_interp(rows.copy(), ys.copy(), x.copy())
            for i in range(m):
                ev.append({"kind": "Interp", "row": bits_array(rows[i]), "ys": bits_array(ys), "x": bits(x[i]), "y": bits(y[i]),
                           "_m": {"row": rows[i].tolist(), "x": float(x[i]), "y": float(y[i])}})
        # queries one / a few ulps next to a node (also next to a plateau), in EVERY row position of a batch: what a row returns does not
        # depend on where in the batch it sits
        for _ in range(max(6, n // 4)):
            k = int(rng.integers(4, 9))
            m = int(rng.integers(2, 7))
            rows = np.sort(rng.choice(np.arange(0, 9) / 8.0 + rng.choice([0.0, 0.05, 1e-3]), size=(m, k)), axis=1)
            rows[:, 0] = 0.0
            rows[:, -1] = 1.0
            ys = np.sort(rng.uniform(-3, 3, k))
            x = np.empty(m)
            for i in range(m):
                inner = [v for v in rows[i, 1:-1] if 0.0 < v < 1.0]
                node = float(rng.choice(inner)) if inner else 0.5
                step = int(rng.choice([1, 2, 5]))
                q = node
                for _k in range(step):
                    q = float(np.nextafter(q, np.inf if rng.random() < 0.5 else -np.inf))
                x[i] = q if 0.0 < q < 1.0 else 0.5
            try:
                y = vec_1d_interp(rows.copy(), ys.copy(), x.copy())
            except Exception as ex:      # a legal batch that raises
                y = np.full(m, np.nan)
            for i in range(m):
                ev.append({"kind": "Interp", "row": bits_array(rows[i]), "ys": bits_array(ys), "x": bits(x[i]), "y": bits(y[i]),
                           "_m": {"row": rows[i].tolist(), "x": float(x[i]), "y": float(y[i]), "batch_pos": i, "near_node": True}})
        # a LARGE batch (more rows than the 8192-element iterator buffer, more than 2**16 table elements) of rows with a very fine tail,
        # as the shipped CDF rows have; a sample of the rows (first, last, around 4096 / 8192, random ones) is judged like any other row
        k = 12
        m = 9001
        base = np.array([0.0, 1e-12, 2e-12, 3e-12, 1e-9, 1e-6, 1e-3, 0.1, 0.5, 0.9, 0.999, 1.0])
        rows = np.tile(base, (m, 1))
        rows[:, 4:11] *= rng.uniform(0.9, 1.1, size=(m, 7))
        rows = np.sort(rows, axis=1)
        ys = np.linspace(-7.0, 0.0, k)
        x = rng.choice([0.5e-12, 1.5e-12, 2.5e-12, 2e-10, 0.3, 0.95], size=m)
        try:
            y = vec_1d_interp(rows.copy(), ys.copy(), x.copy())
        except Exception as ex:
            y = np.full(m, np.nan)
        pick = sorted(set([0, 1, 2, 4095, 4096, 4097, 8190, 8191, 8192, 8193, m - 2, m - 1]) | set(int(i) for i in rng.integers(0, m, 40)))
        for i in pick:
            ev.append({"kind": "Interp", "row": bits_array(rows[i]), "ys": bits_array(ys), "x": bits(x[i]), "y": bits(y[i]),
                       "_m": {"row": rows[i].tolist(), "x": float(x[i]), "y": float(y[i]), "batch_pos": i, "batch": m}})
    finally:
        shutil.rmtree(tmp, ignore_errors=True)
    return ev


def run(tier="quick", seed=0):
    pr = PropertyRun("C18", tier, seed)
    thorough = tier == "thorough"
    pr.model_check("GridFile", workers=4)
    pr.model_check("MCGridInterp", workers=8, timeout=900)
    for v in (1, 2, 3):
        pr.model_check("MCTauTables", workers=2, heap="4g", env={"TABLE_FILE": tables.export_tau(v)}, timeout=900)
    ev = []
    for r in range(10 if thorough else 1):
        ev += events(seed + r, 120 if thorough else 40)
    # chunk on Write boundaries: keep each Write with its Reads
    groups, cur = [], []
    for e in ev:
        if e["kind"] == "Write" and len(cur) > len(ev) // 12 and (not cur or cur[-1]["kind"] != "Write"):
            groups.append(cur)
            cur = []
        cur.append(e)
    groups.append(cur)
    pr.validate("TraceGrid", None, name="grid-io-slice-interp", groups=groups)
    pr.note(shipped_tables_checked=["nu2tau_cdf.1/2/3", "nu2tau_pexit.1/2/3"],
            shipped_predicates=["AxesSound", "RowsSound", "PexitSound", "TauAboveMass"])
    return pr.finish(
        rule="NssGrid write/read round trips (hdf5, fits) over grids of 1-4 dimensions, extents 1-3, dtypes f8/f4/i4/i8, ASCII and "
             "Unicode axis names, overwrite; grid_slice_interp at nodes / midpoints / thirds by index and by name; vec_1d_interp rows "
             "with plateaus; all nodes of the six shipped tables; distinct = distinct events",
        assumptions=["FITS returns big-endian arrays: compared by value", "non-ASCII axis names only in HDF5 (not representable in FITS)"],
        trusted=["TLC + Float64 override", "h5py"])


def replay(path):
    import json
    print(json.dumps(json.load(open(path))["violations"][:3], indent=1)[:4000])
    return 1
