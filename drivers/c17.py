"""C17 - staged output is prefix-consistent at stage boundaries and after stage failure.

spec      : NuSpaceSim.tla (all configurations x all linearisations x all crash points), TLC
spec->code: the (configuration, crash point) pairs enumerated by TLC (FaultPlan) are realised on compute():
            exception at boundary k, exception inside a stage, process death at boundary k (subprocess)
code->spec: every run is recorded by the instrumented results table (mutation events + read-back file
            snapshots) and validated by TLC against NuSpaceSim.tla (TraceNuSpaceSim.tla)
"""
import os
import shutil
import tempfile

from nssverif import pipeline, par, tlc
import numpy as np

from nssverif.kit import PropertyRun


def _spec_of(mode, optical, radio, thrown, extra=None):
    s = {"mode": mode, "optical": optical, "radio": radio, "thrown": thrown}
    if mode == "Target":
        s.update({"thrown": max(thrown, 300)})
    s.update(extra or {})
    return s


def _job(job):
    kind = job["kind"]
    if kind == "exit":
        d = tempfile.mkdtemp(prefix="nsv-c17-")
        try:
            ev, rc = pipeline.run_compute_subprocess(job["spec"], job["seed"], job["k"], d)
        finally:
            shutil.rmtree(d, ignore_errors=True)
        return ev
    ev, _ = pipeline.run_compute(job["spec"], job["seed"], job.get("scheduler", "sync"), job.get("write", True), job.get("fault"),
                                 out_name=job.get("out_name", "out.fits"), path_form=job.get("path_form", "str"),
                                 preexisting=job.get("preexisting", False))
    return ev


def plan(pr, tier, seed):
    r = pr.model_check("MCNuSpaceSim", "MCNuSpaceSim.cfg", workers=16, deadlock=False, coverage=True, heap="6g", timeout=1200)
    pr.model_check("MCNuSpaceSim", "MCNuSpaceSimLive.cfg", workers=8, deadlock=False)
    fp = r.printed("FAULTPLAN")
    if not fp:
        raise tlc.MachineryError("no FAULTPLAN printed")
    return sorted(fp[0][1])


def run(tier="quick", seed=0):
    pr = PropertyRun("C17", tier, seed)
    thorough = tier == "thorough"
    faultplan = plan(pr, tier, seed)
    thrown = 60
    jobs = []
    for mode, optical, radio, k in faultplan:
        full = optical and radio
        if not thorough and not full:
            continue
        jobs.append({"kind": "raise", "spec": _spec_of(mode, optical, radio, thrown), "seed": seed + 1,
                     "fault": ("boundary", k, "raise")})
        if thorough or (full and k in (1, 2, 7, 15)):
            jobs.append({"kind": "exit", "spec": _spec_of(mode, optical, radio, thrown), "seed": seed + 1, "k": k})
    # failures inside stages, clean runs, runs without write_stages, other spectra / clouds
    # (a detector longitude outside [-180, 180) deg is a valid configuration: whatever a stage does to normalise it must not reach
    # columns that are already stored and written)
    variants = [{"spectrum": "mono", "cloud": "none"}, {"spectrum": "power", "cloud": "uniform"},
                {"spectrum": "mono", "cloud": "none", "set": {"detector.initial_position.longitude": float(np.radians(200.0))}}]
    if thorough:
        variants += [{"spectrum": "power", "cloud": "map"}, {"spectrum": "mono", "cloud": "map", "altitude": 33.0}]
    for mode in ("Diffuse", "Target"):
        for st in pipeline.STAGE_POINTS:
            jobs.append({"kind": "stage", "spec": _spec_of(mode, True, True, thrown), "seed": seed + 2, "fault": ("stage", st)})
            # the same failure with intermediate writing disabled: nothing may appear on disk
            jobs.append({"kind": "stage-nowrite", "spec": _spec_of(mode, True, True, thrown), "seed": seed + 2, "write": False,
                         "fault": ("stage", st)})
        for v in variants:
            for write in (True, False):
                jobs.append({"kind": "clean", "spec": _spec_of(mode, True, True, thrown, v), "seed": seed + 3, "write": write})
        # the rewrite itself fails (conversion of the table for the k-th rewrite raises): the previous prefix must survive
        for kw in ((2, 5, 9) if not thorough else (1, 2, 3, 5, 7, 9, 12, 15)):
            jobs.append({"kind": "write-fault", "spec": _spec_of(mode, True, True, thrown), "seed": seed + 7, "fault": ("write", kw)})
        jobs.append({"kind": "clean", "spec": _spec_of(mode, True, False, thrown), "seed": seed + 4})
        jobs.append({"kind": "clean", "spec": _spec_of(mode, False, True, thrown), "seed": seed + 4})
        jobs.append({"kind": "raise-nowrite", "spec": _spec_of(mode, True, True, thrown), "seed": seed + 5, "write": False,
                     "fault": ("boundary", 6, "raise")})
    # the staged file is a FITS table whatever the output file is called
    for nm in ("run.ecsv", "run_output", "results.dat", "table.FITS"):
        jobs.append({"kind": "clean-name", "spec": _spec_of("Diffuse", True, True, thrown), "seed": seed + 6, "out_name": nm})
    jobs.append({"kind": "raise-name", "spec": _spec_of("Target", True, True, thrown), "seed": seed + 6, "out_name": "run.ecsv",
                 "fault": ("boundary", 9, "raise")})
    # a run in which no trajectory survives (early return) with write_stages
    jobs.append({"kind": "clean", "spec": {"mode": "Target", "thrown": 20, "obst": 600.0, "ra": 0.0, "dec": 1.5}, "seed": seed})
    # ... and with intermediate writing DISABLED (the early return must not write either), in both modes (Diffuse: a single throw at a narrow
    # annulus frequently leaves no survivor - seeds that do are found by trying)
    jobs.append({"kind": "clean-nowrite-empty", "spec": {"mode": "Target", "thrown": 20, "obst": 600.0, "ra": 0.0, "dec": 1.5}, "seed": seed, "write": False})
    for sd in range(8):
        jobs.append({"kind": "clean-nowrite-empty", "spec": {"mode": "Diffuse", "thrown": 1, "limb": float(np.radians(0.2))}, "seed": seed + 200 + sd, "write": False})
        jobs.append({"kind": "clean-maybe-empty", "spec": {"mode": "Diffuse", "thrown": 1, "limb": float(np.radians(0.2))}, "seed": seed + 200 + sd})
    # history: the output path already holds the file of an EARLIER run (other columns, other header).  With write_stages it is replaced at the
    # first boundary (also when the run fails right there or later); without write_stages the simulation leaves it exactly as it was
    for mode in ("Diffuse", "Target"):
        jobs.append({"kind": "clean-stale", "spec": _spec_of(mode, True, True, thrown), "seed": seed + 9, "preexisting": True})
        jobs.append({"kind": "nowrite-stale", "spec": _spec_of(mode, True, True, thrown), "seed": seed + 9, "preexisting": True, "write": False})
        for kb in (1, 2, 8):
            jobs.append({"kind": "raise-stale", "spec": _spec_of(mode, True, True, thrown), "seed": seed + 9, "preexisting": True,
                         "fault": ("boundary", kb, "raise")})
        jobs.append({"kind": "raise-nowrite-stale", "spec": _spec_of(mode, True, True, thrown), "seed": seed + 9, "preexisting": True, "write": False,
                     "fault": ("boundary", 5, "raise")})
        jobs.append({"kind": "stage-stale", "spec": _spec_of(mode, True, True, thrown), "seed": seed + 9, "preexisting": True,
                     "fault": ("stage", sorted(pipeline.STAGE_POINTS)[0])})
    jobs.append({"kind": "empty-stale", "spec": {"mode": "Target", "thrown": 20, "obst": 600.0, "ra": 0.0, "dec": 1.5}, "seed": seed, "preexisting": True})
    jobs.append({"kind": "empty-nowrite-stale", "spec": {"mode": "Target", "thrown": 20, "obst": 600.0, "ra": 0.0, "dec": 1.5}, "seed": seed,
                 "preexisting": True, "write": False})
    # the output file given as a path object instead of a str
    for mode in ("Diffuse", "Target"):
        jobs.append({"kind": "clean-pathlib", "spec": _spec_of(mode, True, True, thrown), "seed": seed + 8, "path_form": "pathlib"})
        jobs.append({"kind": "raise-pathlib", "spec": _spec_of(mode, True, True, thrown), "seed": seed + 8, "path_form": "pathlib",
                     "fault": ("boundary", 9, "raise")})
        jobs.append({"kind": "nowrite-pathlib", "spec": _spec_of(mode, True, True, thrown), "seed": seed + 8, "path_form": "pathlib", "write": False})
    traces = par.pmap(_job, jobs, workers=14)
    traces = [t for t in traces if t]
    groups = [[] for _ in range(min(16, len(traces)))]
    for i, t in enumerate(traces):
        groups[i % len(groups)].extend(t)
    pr.validate("TraceNuSpaceSim", None, name="compute-runs", groups=groups)
    pr.traces = len(traces)
    kinds = {}
    for j in jobs:
        kinds[j["kind"]] = kinds.get(j["kind"], 0) + 1
    ends = {}
    for t in traces:
        o = t[-1].get("outcome", "?")
        ends[o] = ends.get(o, 0) + 1
    pr.note(runs_by_kind=kinds, outcomes=ends, fault_plan_size=len(faultplan))
    pr.level = "fault_enumeration" if False else "model_checking"
    return pr.finish(
        rule="compute() runs: failure injected at every stage boundary k of the TLC-enumerated fault plan (exception; process "
             "death in a subprocess), inside every stage method, plus clean runs with/without write_stages; one event per "
             "table mutation with the output file read back; distinct = distinct events",
        assumptions=["the output file is read back with astropy (Table.read) at each boundary",
                     "process death is realised with os._exit(9) between two staged-writer calls, not inside a write"],
        trusted=["TLC", "astropy FITS reader"])


def replay(path):
    import json
    print(json.dumps(json.load(open(path))["violations"][:3], indent=1)[:4000])
    return 1
