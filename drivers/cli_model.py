"""The `nuspacesim run` command line against Cli.tla (extra coverage, run as part of C14): TLC enumerates the option space, every
combination is replayed through click's runner with compute() replaced by a recorder (what it receives is the effective configuration;
it writes the staged file when asked to), and each invocation is one trace event validated by TraceCli.tla."""
import glob
import os
import shutil
import tempfile

import numpy as np

from nssverif import use_repo

FILE_THROWN = 23


def events(options, seed, limit=None):
    use_repo()
    import importlib
    from click.testing import CliRunner
    from astropy.table import Table
    from nuspacesim.apps.cli import cli
    from nuspacesim.config import NssConfig, Simulation, create_toml
    runmod = importlib.import_module("nuspacesim.apps.run")
    rng = np.random.default_rng(seed)
    opts = sorted(options, key=lambda o: sorted(o.items()).__repr__())
    if limit and len(opts) > limit:
        opts = [opts[i] for i in sorted(rng.choice(len(opts), size=limit, replace=False))]
    tmp = tempfile.mkdtemp(prefix="nsv-cli-")
    ev = []
    seen = {}
    orig_compute = runmod.compute

    def recorder(config, verbose=False, output_file=None, to_plot=None, write_stages=False, **kw):
        seen.update(config=config, output_file=output_file, write_stages=write_stages)
        t = Table({"beta_rad": [0.1, 0.2]})
        if write_stages and output_file:
            t.write(output_file, format="fits", overwrite=True)
        return t
    runmod.compute = recorder
    cwd = os.getcwd()
    try:
        base = NssConfig()
        base.simulation.thrown_events = FILE_THROWN
        base.simulation.spectrum = Simulation.PowerSpectrum(index=1.7, lower_bound=7.0, upper_bound=8.0)     # the file's own choices
        base.simulation.cloud_model = Simulation.MonoCloud(altitude=7.7)
        toml = os.path.join(tmp, "cfg.toml")
        create_toml(toml, base)
        for k, o in enumerate(opts):
            wd = os.path.join(tmp, f"w{k}")
            os.makedirs(wd)
            os.chdir(wd)
            args = ["run", toml]
            if o["count"]:
                args.append(str(o["count"]))
            if o["mono"] != "absent":
                args += ["--monospectrum", "9.5" if o["mono"] == "value" else "0"]
            if o["power"]:
                args += ["--powerspectrum", "2.0", "7.0", "9.0"]
            if o["nocloud"]:
                args.append("--nocloud")
            if o["monocloud"] != "absent":
                args += ["--monocloud", "3.5" if o["monocloud"] == "value" else "0"]
            if o["pmap"]:
                args += ["--pressuremapcloud", "Feb"]
            if o["out"]:
                args += ["-o", os.path.join(wd, "given.fits")]
            if o["w"]:
                args.append("-w")
            if o["n"]:
                args.append("-n")
            seen.clear()
            res = CliRunner().invoke(cli, args)
            failed = res.exit_code != 0
            files = sorted(os.path.basename(f) for f in glob.glob(os.path.join(wd, "*")))
            proj = []
            for f in files:
                proj.append("given" if f == "given.fits" else ("default" if f.startswith("nuspacesim_run_") and f.endswith(".fits") else f))
            c = seen.get("config")
            if c is not None:
                sp, cl = c.simulation.spectrum, c.simulation.cloud_model
                spectrum = ("mono-option" if isinstance(sp, Simulation.MonoSpectrum) and sp.log_nu_energy == 9.5 else
                            "power-option" if isinstance(sp, Simulation.PowerSpectrum) and sp.index == 2.0 else
                            "file" if isinstance(sp, Simulation.PowerSpectrum) and sp.index == 1.7 else "other")
                cloud = ("none-option" if isinstance(cl, Simulation.NoCloud) else
                         "mono-option" if isinstance(cl, Simulation.MonoCloud) and cl.altitude == 3.5 else
                         "map-option" if isinstance(cl, Simulation.PressureMapCloud) and cl.month == 2 else
                         "file" if isinstance(cl, Simulation.MonoCloud) and cl.altitude == 7.7 else "other")
                of = seen.get("output_file") or ""
                path = "given" if os.path.basename(of) == "given.fits" else ("default" if os.path.basename(of).startswith("nuspacesim_run_") else "other")
                thrown, ws = int(c.simulation.thrown_events), bool(seen.get("write_stages"))
            else:
                spectrum = cloud = path = ""
                thrown, ws = 0, False
            ev.append({"kind": "cli", "opts": o, "failed": bool(failed), "computed": c is not None, "thrown": thrown, "fileThrown": FILE_THROWN,
                       "spectrum": spectrum, "cloud": cloud, "writeStages": ws, "path": path, "files": proj,
                       "_m": {"args": args[2:], "exit_code": res.exit_code, "exception": None if res.exception is None else repr(res.exception)[:160],
                              "files": files}})
    finally:
        os.chdir(cwd)
        runmod.compute = orig_compute
        shutil.rmtree(tmp, ignore_errors=True)
    return ev
