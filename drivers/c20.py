"""C20 - radio detection chain scales correctly and respects its validity range.

spec      : Radio.tla; MCRadio exhaustive over all 13 695 aligned bands (field bins = antenna/noise bins) + unaligned counter-model
code->spec: every / sampled aligned band through RadioEFieldParams(band) and calculate_snr with the antenna and noise functions wrapped
            to log the bin centres they receive; shower batches taken from real pipeline stages (so that fields are non-zero)
            evaluated with E and 3E, N and 4N antennas, permuted, under a constant np.random stream
"""
import numpy as np

from nssverif import use_repo, par, rng as rngmod
from nssverif.f64 import bits, bits_array
from nssverif.kit import PropertyRun
from nssverif.bufs import Reuse
from nssverif.pipeline import make_config


def band_job(job):
    use_repo()
    from nuspacesim.simulation.eas_radio.radio import RadioEFieldParams
    from nuspacesim.simulation.eas_radio import radio_antenna as ra
    ev = []
    zen, view, h = np.array([70.0, 85.0, 60.0]), np.array([0.5, 1.0, 0.2]), np.array([2.0, 0.5, 5.0])
    for lo, hi in job["bands"]:
        seen = {"ant": None, "noise": None}
        ov, on = ra.voltage_from_field, ra.noise_voltage

        def lv(E, f, g, _o=ov):
            seen["ant"] = np.array(f, copy=True)
            return _o(E, f, g)

        def ln(f, hh, _o=on):
            seen["noise"] = np.array(f, copy=True)
            return _o(f, hh)
        ra.voltage_from_field, ra.noise_voltage = lv, ln
        err = None
        try:
            ef = np.asarray(RadioEFieldParams((float(lo), float(hi)))(zen, view, h))
            nfield = int(ef.shape[1]) if ef.ndim == 2 else -1
            snr = np.asarray(ra.calculate_snr(ef, (float(lo), float(hi)), 525.0, 10, 1.8), dtype=float)
            snr_ok = bool(snr.shape == (len(zen),) and np.all(np.isfinite(snr)))
        except Exception as ex:
            snr_ok = False
            err = repr(ex)[:200]
            nfield = locals().get("nfield", -1)
        finally:
            ra.voltage_from_field, ra.noise_voltage = ov, on

        def ints(a):
            if a is None:
                return [-1]
            a = np.asarray(a, dtype=float)
            return [int(x) if float(x).is_integer() else -1 for x in a]
        ev.append({"kind": "band", "lo": int(lo), "hi": int(hi), "nfield": nfield, "ant": ints(seen["ant"]), "noise": ints(seen["noise"]),
                   "snrOk": snr_ok, "_m": {"lo": lo, "hi": hi, "nfield": nfield, "error": err, "snr_ok": snr_ok}})
    return ev


def shower_inputs(spec, seed, n):
    """(beta, altDec, lenDec, theta, pathLen, showerEnergy) from the real geometry / tau / decay stages"""
    use_repo()
    from nuspacesim.simulation.geometry.region_geometry import RegionGeom
    from nuspacesim.simulation.spectra.spectra import Spectra
    from nuspacesim.simulation.taus.taus import Taus
    from nuspacesim.simulation.eas_optical.eas import EAS
    cfg = make_config(spec)
    np.random.seed(seed)
    g = RegionGeom(cfg)
    beta, theta, path = g(n)
    le = Spectra(cfg)(len(beta))[0]
    tb, tg, tE, Esh, _ = Taus(cfg)(beta, le)
    alt, ln = EAS(cfg).altDec(beta, tb, tg)
    return cfg, [np.asarray(x, dtype=float) for x in (beta, alt, ln, theta, path, Esh)]


def shower_job(job):
    use_repo()
    from nuspacesim.simulation.eas_radio.radio import EASRadio
    from nuspacesim.simulation.eas_radio.radio_antenna import calculate_snr
    rng = np.random.default_rng(job["seed"])
    cfg, (beta, alt, ln, theta, path, Esh) = shower_inputs(job["spec"], job["seed"], job["n"] if not job.get("exact") else (40 if job["n"] < 1000 else 3) * job["n"])
    if job.get("exact"):
        # exactly this many events in the batch
        beta, alt, ln, theta, path, Esh = (x[: job["n"]].copy() for x in (beta, alt, ln, theta, path, Esh))
    n = len(beta)
    if n == 0:
        return []
    # boundary altitudes and a decay exactly at the surface
    from astropy.constants import R_earth
    import astropy.units as u
    R = float(R_earth.to(u.km).value)
    k = min(n, 5)
    for j, a in enumerate([10.0, float(np.nextafter(10.0, 11)), 5.0, 12.0, 9.999999][:k]):
        # a decay length that is geometrically consistent with the wanted altitude
        sb = np.sin(beta[j])
        ln[j] = -R * sb + np.sqrt((R * sb) ** 2 + 2 * R * a + a * a)
        alt[j] = a
    if n > 6:
        ln[6], alt[6] = 0.0, 0.0          # decay exactly at the surface (u = 1)
    if n > 9:
        # out of range BELOW: whatever the other inputs of a masked-out row are (grazing angle, arbitrary length), its field is exactly 0
        alt[7], beta[7], ln[7] = -0.5, 0.005, 1.0
        alt[8], ln[8] = -1e-13, 2.0
        alt[9], beta[9], ln[9] = -3.0, 1e-9, 0.5
    if n > 16:
        # masked-out rows at STEEP emergence angles (zenith below 55 deg: the corner of the waveform table with missing nodes), below and above
        alt[10], beta[10], ln[10] = -1.0, float(np.radians(40.0)), 3.0
        alt[11], beta[11], ln[11] = -0.2, float(np.radians(36.0)), 1.0
        alt[12], beta[12], ln[12] = 15.0, float(np.radians(41.0)), 25.0
        alt[13], beta[13] = min(alt[13], 9.0) if alt[13] >= 0 else 5.0, float(np.radians(39.0))      # in range, steep
    r = cfg.detector.radio
    band = (r.low_frequency, r.high_frequency)
    h, N, gain = cfg.detector.initial_position.altitude, r.nantennas, r.gain
    radio = EASRadio(cfg)
    c = job["c"]

    buf = Reuse()      # the three evaluations hand the stage the SAME argument array objects, refilled

    def fields(E, order=None):
        a = [beta, alt, ln, theta, path, E]
        if order is not None:
            a = [x[order] for x in a]
        with rngmod.constant(c):
            return np.asarray(radio(*[buf(str(j), x) for j, x in enumerate(a)]), dtype=float)
    if job.get("int_energy"):
        # whole-number shower energies held in an INTEGER array (units of 100 PeV): 3 E is then also an integer array
        Esh = np.asarray(rng.integers(1, 40, n), dtype=np.int64)
        ef1, ef3 = fields(Esh), fields(3 * Esh)
    else:
        ef1, ef3 = fields(Esh), fields(3.0 * Esh)
    order = rng.permutation(n)
    efp = fields(Esh, order)
    back = np.empty_like(efp)
    back[order] = efp
    with np.errstate(all="ignore"):
        s1 = calculate_snr(ef1, band, h, N, gain)
        s3 = calculate_snr(ef3, band, h, N, gain)
        sN1 = calculate_snr(ef1, band, h, 3, gain)
        sN4 = calculate_snr(ef1, band, h, 12, gain)
        # the SNR of an event in the permuted batch, and of the event evaluated alone: the same number
        sp_ = np.asarray(calculate_snr(efp, band, h, N, gain), dtype=float)
        sperm = np.empty_like(sp_)
        sperm[order] = sp_
        # (a LARGE batch - more events than any internal block size, not a multiple of it - is judged on a sample of its events: both ends,
        # around every multiple of 4096, random ones)
        if n > 5000:
            judged = set(range(16)) | set(range(n - 12, n)) | set(int(i) for i in rng.integers(0, n, 60))
            for kk in range(4096, n, 4096):
                judged |= {kk - 1, kk}
            judged = sorted(judged)
        else:
            judged = list(range(n))
        salone = np.full(n, np.nan)
        for i in judged:
            salone[i] = float(np.asarray(calculate_snr(ef1[i:i + 1], band, h, N, gain), dtype=float).reshape(-1)[0])
    ev = []
    for i in judged:
        ev.append({"kind": "shower", "alt": bits(alt[i]), "lenDec": bits(ln[i]), "ef1": bits_array(ef1[i]), "ef3": bits_array(ef3[i]),
                   "snr1": bits(s1[i]), "snr3": bits(s3[i]), "snrN1": bits(sN1[i]), "snrN4": bits(sN4[i]), "snrPerm": bits(sperm[i]), "snrAlone": bits(salone[i]), "perm": bits_array(back[i]),
                   "_m": {"spec": job["spec"], "alt": float(alt[i]), "lenDec": float(ln[i]), "lenDec_is_zero": bool(ln[i] == 0.0), "snr": float(s1[i]),
                          "field_max": float(np.nanmax(np.abs(ef1[i]))) if np.isfinite(ef1[i]).any() else float("nan")}})
    return ev


def scale_job(job):
    """distance scaling and the ionosphere decision table, on the same pipeline-generated showers"""
    use_repo()
    from nuspacesim.simulation.eas_radio.radio import EASRadio
    from nuspacesim.config import Simulation
    from astropy.constants import R_earth
    import astropy.units as u
    R = float(R_earth.to(u.km).value)
    cfg0, (beta, alt, ln, theta, path, Esh) = shower_inputs(job["spec"], job["seed"], job["n"])
    keep = (alt >= 0) & (alt <= 10)
    sel = np.flatnonzero(keep)[:25]
    if len(sel) == 0:
        return []
    a = [x[sel] for x in (beta, alt, ln, theta, path, Esh)]
    ev = []

    def fields(cfg):
        with rngmod.constant(job["c"]):
            return np.asarray(EASRadio(cfg)(*[x.copy() for x in a]), dtype=float)
    # distance law: ionosphere switched off, reference 525 km vs other altitudes
    ref_cfg = make_config(dict(job["spec"], altitude=525.0))
    ref_cfg.simulation.ionosphere = None
    ref = fields(ref_cfg)
    for Z in (33.0, 100.0, 400.0, 2000.0, 36000.0):
        c = make_config(dict(job["spec"], altitude=Z))
        c.simulation.ionosphere = None
        f = fields(c)
        for i in range(len(sel)):
            ev.append({"kind": "alt", "beta": bits(a[0][i]), "alt": bits(a[1][i]), "R": bits(R), "Z": bits(Z), "efRef": bits_array(ref[i]),
                       "efZ": bits_array(f[i]), "_m": {"Z": Z, "alt": float(a[1][i]), "beta_deg": float(np.degrees(a[0][i]))}})
    # ionosphere decision table
    cases = []
    for Z in (33.0, 89.9, 90.0, 90.1, 525.0):
        for lo, hi in ((30.0, 300.0), (30.0, 80.0), (300.0, 1000.0), (200.0, 1200.0), (50.0, 300.0), (30.0, 310.0)):
            for tec, err, present in ((10.0, 0.1, True), (5.0, 0.1, True), (7.0, 0.1, True), (10.0, 10.0, True), (10.0, 10.1, True), (-1.0, 0.1, True),
                                      (10.0, 0.1, False), (150.0, 5.0, True)):
                cases.append((Z, lo, hi, tec, err, present))
    rng = np.random.default_rng(job["seed"])
    pick = [cases[i] for i in sorted(rng.choice(len(cases), size=min(job["ncases"], len(cases)), replace=False))]
    import io
    import contextlib
    for Z, lo, hi, tec, err, present in pick:
        c_on = make_config(dict(job["spec"], altitude=Z))
        c_on.detector.radio.low_frequency, c_on.detector.radio.high_frequency = lo, hi
        c_off = c_on.model_copy(deep=True)
        c_off.simulation.ionosphere = None
        c_on.simulation.ionosphere = Simulation.Ionosphere(total_electron_content=tec, total_electron_error=err) if present else None
        with contextlib.redirect_stdout(io.StringIO()):
            on, off = fields(c_on), fields(c_off)
        i = 0
        nz = off[i] != 0
        ratio = float(on[i][nz][0] / off[i][nz][0]) if nz.any() else 1.0
        ev.append({"kind": "ion", "Z": bits(Z), "lo": int(lo), "hi": int(hi), "tecTimes10": int(round(tec * 10)), "tecErrTimes10": int(round(err * 10)),
                   "ionPresent": bool(present), "on": bits_array(on[i]), "off": bits_array(off[i]), "ratio": bits(ratio), "anyNonZero": bool(nz.any()),
                   "_m": {"Z": Z, "band": [lo, hi], "tec": tec, "tecerr": err, "present": present, "ratio": ratio}})
    return ev


def _dispatch(job):
    if job["t"] == "scale":
        try:
            return scale_job(job)
        except Exception as ex:
            return [{"kind": "band", "lo": 30, "hi": 300, "nfield": -1, "ant": [-1], "noise": [-1], "snrOk": False,
                     "_m": {"error": "radio scaling job raised: " + repr(ex)[:300]}}]
    if job["t"] == "band":
        return band_job(job)
    try:
        return shower_job(job)
    except Exception as ex:        # the chain raised on a legal batch: reported as a failing band event of the configured band
        return [{"kind": "band", "lo": 30, "hi": 300, "nfield": -1, "ant": [-1], "noise": [-1], "snrOk": False,
                 "_m": {"spec": job["spec"], "error": "radio chain raised on a pipeline-generated batch: " + repr(ex)[:200]}}]


def run(tier="quick", seed=0):
    from nssverif import tlc
    pr = PropertyRun("C20", tier, seed)
    thorough = tier == "thorough"
    pr.model_check("MCRadio", workers=8)
    un = tlc.run("MCRadio", "MCRadioUnaligned.cfg", workers=2)
    if un.ok:
        raise tlc.MachineryError("unaligned counter-model not rejected: SameBins is vacuous")
    allb = [(10 * a, 10 * b) for a in range(0, 165) for b in range(a + 1, 166)]
    rng = np.random.default_rng(seed)
    if thorough:
        bands = allb
    else:
        pick = rng.choice(len(allb), size=280, replace=False)
        bands = [allb[i] for i in pick] + [(30, 300), (30, 80), (300, 1000), (200, 1200), (0, 1650), (0, 10), (1640, 1650), (10, 20), (0, 20)]
    jobs = [{"t": "band", "bands": bands[i::14]} for i in range(14)]
    specs = [{"altitude": 33.0, "limb": 0.05, "log_e": 10.0}, {"altitude": 525.0, "log_e": 10.5}, {"altitude": 33.0, "limb": 0.05, "log_e": 9.0},
             {"altitude": 2000.0, "log_e": 11.0}]
    for i, s in enumerate(specs):
        for rep in range(3 if thorough else 1):
            jobs.append({"t": "shower", "spec": s, "seed": seed * 10 + i + 100 * rep, "n": 300 if thorough else 120, "c": [0.21, 0.5, 0.83][rep]})
    jobs.append({"t": "shower", "spec": specs[0], "seed": seed * 10 + 77, "n": 60, "c": 0.41, "int_energy": True})
    # batches with as many events as the band has 10 MHz bins (a SQUARE field array), one fewer and one more
    for nb in (26, 27, 28):
        jobs.append({"t": "shower", "spec": specs[1], "seed": seed * 10 + 90 + nb, "n": nb, "c": 0.63, "exact": True})
    # ONE batch with more events than any internal block size (2**16), not a multiple of it
    jobs.append({"t": "shower", "spec": specs[1], "seed": seed * 10 + 95, "n": 70001, "c": 0.29, "exact": True})
    jobs.append({"t": "scale", "spec": {"altitude": 33.0, "limb": 0.05, "log_e": 10.0}, "seed": seed + 7, "n": 200, "c": 0.37, "ncases": 240 if thorough else 60})
    res = par.pmap(_dispatch, jobs, workers=14)
    ev = [e for r in res for e in r]
    pr.validate("TraceRadio", ev, name="radio-chain", chunks=12)
    sh = [e for e in ev if e["kind"] == "shower"]
    pr.note(bands=len(bands), showers=len(sh), nonzero_field_showers=sum(1 for e in sh if e["_m"]["field_max"] > 0),
            out_of_range_showers=sum(1 for e in sh if not (0.0 <= e["_m"]["alt"] <= 10.0)))
    pr.exhaustive = thorough
    return pr.finish(
        rule="aligned frequency bands (all 13 695 in thorough, 289 in quick) through RadioEFieldParams + calculate_snr with the antenna / noise "
             "functions wrapped; shower batches from the real geometry / tau / decay stages at 33, 525 and 2000 km, evaluated with E and 3E, "
             "3 and 12 antennas, permuted, constant np.random stream; distinct = distinct events",
        assumptions=["fixed random numbers = constant np.random stream", "field bin centres are the 10 MHz centres of the shipped parameter file"],
        trusted=["TLC + Float64 override"])


def replay(path):
    import json
    print(json.dumps(json.load(open(path))["violations"][:3], indent=1)[:4000])
    return 1
