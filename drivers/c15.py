"""C15 - configuration survives the TOML round trip and units are honoured.

spec      : ConfigModel.tla (unit table with kinds and factors, input forms, acceptance / conversion, month grammar, variants) +
            GridFile.tla register semantics for the file (MCConfigModel)
spec->code: the plans printed by TLC (every field x input form x unit; every configuration variant) are replayed on NssConfig,
            create_toml / config_from_toml and the create-config CLI
code->spec: every replayed case is one trace event validated by TraceConfig.tla
"""
import os
import shutil
import tempfile

import numpy as np

from nssverif import use_repo, tlc
from nssverif.f64 import bits
from nssverif.kit import PropertyRun

STRINGS = {"plain": "NuSpaceSim run 7", "quote": 'He said "hi" and \'bye\'', "backslash": "C:\\path\\new\\table", "nonascii": "Ångström ν_τ 宇宙",
           "newline": "line1\nline2\ttab", "crlf": "first\r\nsecond\rthird\n\r", "empty": ""}
ASTROPY_UNIT = {"km": "km", "m": "m", "cm": "cm", "mm": "mm", "rad": "rad", "deg": "deg", "arcmin": "arcmin", "arcsec": "arcsec", "m2": "m2",
                "cm2": "cm2", "MHz": "MHz", "GHz": "GHz", "kHz": "kHz", "Hz": "Hz", "dB": "dB"}


def set_field(field, value):
    """build the model object holding `field` from `value`; returns the stored float"""
    from nuspacesim.config import Detector, Simulation
    if field in ("altitude", "latitude", "longitude"):
        return getattr(Detector.InitialPos(**{field: value}), field)
    if field in ("sun_alt_cut", "moon_alt_cut", "moon_min_phase_angle_cut"):
        return getattr(Detector.SunMoon(**{field: value}), field)
    if field == "telescope_effective_area":
        return Detector.Optical(**{field: value}).telescope_effective_area
    if field == "low_frequency":
        return Detector.Radio(low_frequency=value, high_frequency="1e9 GHz").low_frequency
    if field == "high_frequency":
        return Detector.Radio(low_frequency="1e-9 Hz", high_frequency=value).high_frequency
    if field == "gain":
        return Detector.Radio(gain=value).gain
    if field in ("max_cherenkov_angle", "max_azimuth_angle", "angle_from_limb"):
        return getattr(Simulation(**{field: value}), field)
    if field in ("source_RA", "source_DEC"):
        return getattr(Simulation.TargetOfOpportunity(**{field: value}), field)
    raise KeyError(field)


def flatten(obj, prefix=""):
    """(name, value) pairs of a pydantic model tree, by attribute access (not through the serializers)"""
    from pydantic import BaseModel
    out = []
    for name in type(obj).model_fields:
        v = getattr(obj, name)
        if isinstance(v, BaseModel):
            out += flatten(v, prefix + name + ".")
        else:
            out.append((prefix + name, v))
    return out


ANGLE_FIELDS = ("latitude", "longitude", "sun_alt_cut", "moon_alt_cut", "moon_min_phase_angle_cut", "max_cherenkov_angle", "max_azimuth_angle",
                "angle_from_limb", "source_RA", "source_DEC")


def project_fields(before, after, toks):
    fb, fa = dict(flatten(before)), dict(flatten(after))
    out = []
    for name in sorted(set(fb) | set(fa)):
        b, a = fb.get(name, "<missing>"), fa.get(name, "<missing>")
        if isinstance(b, (int, float)) and not isinstance(b, bool) and isinstance(a, (int, float)) and not isinstance(a, bool):
            kind = "a" if name.split(".")[-1] in ANGLE_FIELDS else "n"
            out.append([name, kind, bits(b), bits(a)])
        else:
            out.append([name, "s", toks.setdefault(repr(b) + type(b).__name__, len(toks) + 1), toks.setdefault(repr(a) + type(a).__name__, len(toks) + 1)])
    return out, len(fb), len(fa)


def make_variant(v, rng):
    from nuspacesim.config import NssConfig, Simulation
    c = NssConfig()
    c.title = STRINGS[v["title"]]
    c.detector.name = STRINGS[v["title"]][::-1] if v["title"] != "newline" else "tab\there"
    s = c.simulation
    s.mode = v["mode"]
    s.spectrum = (Simulation.MonoSpectrum(log_nu_energy=float(rng.uniform(6, 12))) if v["spectrum"] == "mono" else
                  Simulation.PowerSpectrum(index=float(rng.uniform(0, 4)), lower_bound=6.5, upper_bound=float(rng.uniform(7, 12))))
    s.cloud_model = {"none": lambda: Simulation.NoCloud(), "mono_neg_inf": lambda: Simulation.MonoCloud(),
                     "mono_finite": lambda: Simulation.MonoCloud(altitude=float(rng.uniform(0, 15))),
                     "map_int_version": lambda: Simulation.PressureMapCloud(month=int(rng.integers(1, 13)), version=0),
                     "map_str_version": lambda: Simulation.PressureMapCloud(month="Mar", version="0")}[v["cloud"]]()
    # boundary / awkward float values
    ip = c.detector.initial_position
    ip.altitude = float(rng.choice([525.0, 0.1 + 0.2, 1e-7, 36000.0, 33.33333333333333]))
    ip.latitude = float(rng.choice([0.0, np.pi / 2, -1.0 / 3, 1e-12, np.radians(45.123456789)]))
    ip.longitude = float(rng.choice([0.0, -np.pi, 2.0 / 3, np.radians(359.999999999)]))
    s.max_cherenkov_angle = float(rng.choice([np.radians(3), 0.1, 1e-3, np.radians(0.7)]))
    s.angle_from_limb = float(np.radians(rng.choice([7.0, 0.1, 33.3])))
    s.thrown_events = int(rng.choice([1, 1000, 10 ** 7]))
    c.detector.radio.low_frequency = float(rng.choice([30.0, 0.1, 299.99999999999994]))
    c.detector.radio.gain = float(rng.choice([1.8, -3.0, 0.0]))
    c.detector.optical.quantum_efficiency = float(rng.choice([0.2, 1.0, 1e-3]))
    if s.target is not None:
        s.target.source_RA = float(rng.uniform(0, 2 * np.pi))
        s.target.source_DEC = float(rng.uniform(-1.5, 1.5))
        s.target.source_obst = float(rng.choice([86400, 1234.5]))
    if v["optional_none"]:
        holder = c.simulation if v["optional_none"] in ("ionosphere", "target") else c.detector
        setattr(holder, v["optional_none"], None)
    return c


def events(plan_units, plan_variants, seed, nvariants):
    use_repo()
    from astropy.units import Quantity
    import astropy.units as u
    from nuspacesim.config import NssConfig, Simulation, Detector, create_toml, config_from_toml
    rng = np.random.default_rng(seed)
    ev = []
    # a complete small simulation (both channels) and the radio SNR chain run FIRST in this process: whatever a stage leaves behind in
    # process-wide state (astropy unit equivalencies, numpy / locale settings) must not change what a configuration accepts afterwards
    try:
        from nssverif import pipeline
        from nuspacesim.simulation.eas_radio import radio_antenna as _ra
        pipeline.run_compute({"mode": "Diffuse", "thrown": 80}, seed, "sync", False, None)
        _ra.calculate_snr(np.ones((2, 27)), (30.0, 300.0), 525.0, 10, 1.8)
    except Exception:
        pass
    # ---- units
    for field, form, unit in plan_units:
        for v in (float(rng.choice([1.0, 0.5, 7.25, 1e-3, 123.456])), float(rng.uniform(0.1, 50))):
            if form == "bare":
                inp = v
            elif form == "string":
                inp = f"{v!r} {ASTROPY_UNIT[unit]}"
            else:
                inp = Quantity(v, u.Unit(ASTROPY_UNIT[unit]))
            try:
                stored = float(set_field(field, inp))
                acc = True
            except Exception:
                stored, acc = 0.0, False
            ev.append({"kind": "unit", "field": field, "form": form, "unit": unit, "v": bits(v), "accepted": acc, "stored": bits(stored),
                       "_m": {"field": field, "form": form, "unit": unit, "v": v, "accepted": acc, "stored": stored}})
    # ---- band
    dflt = Detector.Radio()
    for lo, hi in ((30.0, 300.0), (300.0, 30.0), (50.0, 50.0), (0.0, 1e-9), (1000.0, 999.9999), (500.0, None), (300.0, None), (299.0, None),
                   ("1 GHz", None), (None, 30.0), (None, 10.0), (None, 31.0), (None, "20 MHz")):
        kw = {}
        if lo is not None:
            kw["low_frequency"] = lo
        if hi is not None:
            kw["high_frequency"] = hi
        try:
            Detector.Radio(**kw)
            acc = True
        except Exception:
            acc = False
        # the band that results: a missing end takes the documented default
        from astropy.units import Quantity as _Q
        import astropy.units as _u
        tomhz = lambda x, d: d if x is None else float(_Q(x).to(_u.MHz).value if isinstance(x, str) else x)
        elo, ehi = tomhz(lo, dflt.low_frequency), tomhz(hi, dflt.high_frequency)
        ev.append({"kind": "band", "lo": bits(elo), "hi": bits(ehi), "accepted": acc,
                   "_m": {"lo_given": lo, "hi_given": hi, "lo": elo, "hi": ehi, "accepted": acc}})
    # ---- months
    names = ["January", "February", "March", "April", "May", "June", "July", "August", "September", "October", "November", "December"]
    cases = []
    for n in range(0, 15):
        cases.append(("int", n, "", n))
        cases.append(("num", n, "", str(n)))
        cases.append(("num", n, "", "%02d" % n))
    for k, nm in enumerate(names):
        for raw in (nm, nm.lower(), nm.upper()):
            cases.append(("name", 0, nm, raw))
        for raw in (nm[:3], nm[:3].lower(), nm[:3].upper()):
            cases.append(("abbr", 0, nm[:3], raw))
    for bad in ("Smarch", "", "Janu", "13th"):
        cases.append(("name", 0, bad, bad))
    for form, n, s, raw in cases:
        try:
            m = Simulation.PressureMapCloud(month=raw).month
            acc = True
        except Exception:
            m, acc = 0, False
        ev.append({"kind": "month", "form": form, "n": int(n), "s": s, "accepted": acc, "month": int(m) if isinstance(m, int) else -1,
                   "_m": {"raw": raw, "accepted": acc, "month": m}})
    # ---- round trips over the variants (file API and CLI)
    tmp = tempfile.mkdtemp(prefix="nsv-c15-")
    toks = {}
    try:
        pick = list(plan_variants)
        rng.shuffle(pick)
        for i, v in enumerate(pick[:nvariants]):
            c = make_variant(v, rng)
            path = os.path.join(tmp, "config.toml")       # ONE path, overwritten by every variant: a read returns the last write
            try:
                # the file name as a str, as a path object, and relative to the working directory (all name the same file)
                import pathlib
                spell = i % 4
                if spell == 3:
                    cwd0 = os.getcwd()
                    os.chdir(tmp)
                    try:
                        create_toml("config.toml", c)
                        back = config_from_toml(pathlib.Path("config.toml"))
                    finally:
                        os.chdir(cwd0)
                else:
                    create_toml(pathlib.Path(path) if spell == 1 else path, c)
                    back = config_from_toml(pathlib.Path(path) if spell == 2 else path)
                fields, nb, na = project_fields(c, back, toks)
                ok, err = True, None
            except Exception as ex:
                fields, nb, na, ok, err = [], 0, 0, False, repr(ex)[:200]
            ev.append({"kind": "rt", "variant": v, "ok": ok, "fields": fields, "nbefore": nb, "nafter": na,
                       "_m": dict(v, ok=ok, error=err, has_none_section=bool(v["optional_none"]), via="api")})
        # the same round trip in a child interpreter under the POSIX locale (LC_ALL=C, UTF-8 mode off): what a file holds must not depend
        # on the locale of the process that wrote it (variants with non-ASCII strings, no absent sections)
        import subprocess
        import sys as _sys
        import json as _json
        from nssverif import VERIF, REPO
        loc_variants = [v for v in pick[:nvariants] if not v["optional_none"] and any(ord(ch) > 127 for ch in STRINGS[v["title"]])][:6]
        if loc_variants:
            env = dict(os.environ, LC_ALL="C", LANG="C", PYTHONUTF8="0", PYTHONCOERCECLOCALE="0", PYTHONIOENCODING="utf-8",
                       PYTHONPATH=VERIF, VERIF_REPO=REPO)
            try:
                r = subprocess.run([_sys.executable, "-c", "from drivers import c15; c15._locale_child()"], input=_json.dumps({"variants": loc_variants, "seed": seed}),
                                   env=env, cwd=VERIF, stdout=subprocess.PIPE, stderr=subprocess.PIPE, text=True, timeout=300, encoding="utf-8")
                child = _json.loads(r.stdout.strip().splitlines()[-1])
            except Exception as ex:
                raise RuntimeError(f"C15 locale child did not answer: {ex!r}")
            ev.extend(child)
        # the create-config command line
        from click.testing import CliRunner
        from nuspacesim.apps.cli import cli
        for j, (args, edit) in enumerate([
                (["-n", "1e5"], lambda c: setattr(c.simulation, "thrown_events", 100000)),
                (["--monospectrum", "9.5"], lambda c: setattr(c.simulation, "spectrum", Simulation.MonoSpectrum(log_nu_energy=9.5))),
                (["--powerspectrum", "2.2", "7", "11"], lambda c: setattr(c.simulation, "spectrum", Simulation.PowerSpectrum(index=2.2, lower_bound=7.0, upper_bound=11.0))),
                (["--monocloud", "3.5"], lambda c: setattr(c.simulation, "cloud_model", Simulation.MonoCloud(altitude=3.5))),
                (["--pressuremapcloud", "Feb"], lambda c: setattr(c.simulation, "cloud_model", Simulation.PressureMapCloud(month=2))),
                (["--nocloud"], lambda c: setattr(c.simulation, "cloud_model", Simulation.NoCloud()))]):
            path = os.path.join(tmp, f"cli{j}.toml")
            want = NssConfig()
            if "-n" not in args:
                want.simulation.thrown_events = want.simulation.thrown_events
            edit(want)
            res = CliRunner().invoke(cli, ["create-config"] + args + [path])
            try:
                back = config_from_toml(path)
                if "-n" not in args:
                    want.simulation.thrown_events = back.simulation.thrown_events     # the CLI's own default count is not part of C15
                fields, nb, na = project_fields(want, back, toks)
                ok, err = res.exit_code == 0, None if res.exit_code == 0 else str(res.exception)[:200]
            except Exception as ex:
                fields, nb, na, ok, err = [], 0, 0, False, repr(ex)[:200] + str(res.output)[-200:]
            ev.append({"kind": "rt", "variant": {"cli": " ".join(args)}, "ok": ok, "fields": fields, "nbefore": nb, "nafter": na,
                       "_m": {"via": "create-config CLI", "args": args, "ok": ok, "error": err, "has_none_section": False}})
    finally:
        shutil.rmtree(tmp, ignore_errors=True)
    return ev


def _locale_child():
    """runs in a child interpreter under the POSIX locale: TOML round trips of the variants given on stdin, events on stdout"""
    import json
    import locale
    import sys
    use_repo()
    from nuspacesim.config import create_toml, config_from_toml
    req = json.loads(sys.stdin.read())
    rng = np.random.default_rng(req["seed"] + 5)
    tmp = tempfile.mkdtemp(prefix="nsv-c15loc-")
    out = []
    try:
        for v in req["variants"]:
            toks = {}
            path = os.path.join(tmp, "config.toml")
            try:
                c = make_variant(v, rng)
                create_toml(path, c)
                back = config_from_toml(path)
                fields, nb, na = project_fields(c, back, toks)
                ok, err = True, None
            except Exception as ex:
                fields, nb, na, ok, err = [], 0, 0, False, repr(ex)[:200]
            out.append({"kind": "rt", "variant": v, "ok": ok, "fields": fields, "nbefore": nb, "nafter": na,
                        "_m": dict(v, ok=ok, error=err, has_none_section=False, via="api, child interpreter under the POSIX locale",
                                   preferred_encoding=locale.getpreferredencoding(False))})
    finally:
        shutil.rmtree(tmp, ignore_errors=True)
    sys.stdout.write(json.dumps(out) + "\n")


def run(tier="quick", seed=0):
    pr = PropertyRun("C15", tier, seed)
    thorough = tier == "thorough"
    r = pr.model_check("MCConfigModel", workers=8, timeout=900)
    units = sorted(r.printed("UNITPLAN")[0][1])
    variants = [dict(v) for v in r.printed("VARIANTS")[0][1]]
    variants = [v if isinstance(v, dict) else dict(v) for v in variants]
    ev = events(units, variants, seed, len(variants) if thorough else 150)
    pr.validate("TraceConfig", ev, name="config-model", chunks=8)
    pr.exhaustive = thorough
    pr.note(unit_cases=len(units), variants_total=len(variants), variants_replayed=sum(1 for e in ev if e["kind"] == "rt"))
    return pr.finish(
        rule="every (dimensional field x input form x unit) combination of the TLC plan with two values each; band validation; 93 month inputs "
             "(numbers 0-14 as int / text / zero-padded text, names and abbreviations in three letter cases, 4 unparseable); TOML round trips "
             "of configuration variants (all 720 in thorough, 150 in quick) with boundary floats and awkward strings; 6 create-config CLI runs",
        assumptions=["astropy's unit conversion is the reference for the factor table (<= 4 ulp)", "TOML byte format not modelled (Read o Write at API level)"],
        trusted=["TLC + Float64 override"])


def replay(path):
    import json
    print(json.dumps(json.load(open(path))["violations"][:3], indent=1)[:4000])
    return 1
