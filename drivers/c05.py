"""C05 - tau exit probability is a faithful, bounded interpolation of the tables (see drivers/c04.py, tau_common.py).
spec: TauTables.tla Pexit / PexitLo / PexitHi; MCTauTables checks node exactness, cell bounds and clamp rules on ALL
nodes of the three shipped tables; code->spec: Taus.tau_exit_prob events validated by TraceTau.tla"""
from drivers import c04


def run(tier="quick", seed=0):
    return c04.run(tier, seed, which="c05", pid="C05")


replay = c04.replay
