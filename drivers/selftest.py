"""Self-test of the trusted base: Float64 override vs numpy, TraceKit rejection of a corrupted trace."""
import math

import numpy as np

from nssverif.f64 import bits
from nssverif.kit import PropertyRun
from nssverif import tlc


def float_events(seed=0, n=40):
    rng = np.random.default_rng(seed)
    ev = []
    xs = list(rng.normal(size=n)) + list(10.0 ** rng.uniform(-300, 300, n)) + [0.0, -0.0, 1.0, -1.0, 5e-324, 1.7976931348623157e308, np.inf, -np.inf]
    un = {"neg": np.negative, "abs": np.abs, "sqrt": np.sqrt, "cbrt": np.cbrt, "exp": np.exp, "expm1": np.expm1, "log1p": np.log1p, "ln": np.log, "log10": np.log10,
          "sin": np.sin, "cos": np.cos, "tan": np.tan, "asin": np.arcsin, "acos": np.arccos, "atan": np.arctan,
          "floor": np.floor, "nextup": lambda x: np.nextafter(x, np.inf), "nextdown": lambda x: np.nextafter(x, -np.inf),
          "f32": lambda x: np.float64(np.float32(x)), "radians": np.radians, "degrees": np.degrees}
    bi = {"add": np.add, "sub": np.subtract, "mul": np.multiply, "div": np.divide, "pow": np.power, "atan2": np.arctan2,
          "hypot": np.hypot, "min": np.minimum, "max": np.maximum, "mod": np.mod}
    with np.errstate(all="ignore"):
        for op, f in un.items():
            for x in xs:
                if op in ("sin", "cos", "tan") and abs(x) > 1e15:
                    continue
                w = float(f(np.float64(x)))
                if math.isnan(w):
                    continue
                ev.append({"kind": "num", "op": op, "args": [bits(x)], "want": bits(w),
                           "ulps": 0 if op in ("neg", "abs", "sqrt", "floor", "nextup", "nextdown", "f32") else 2})
        for op, f in bi.items():
            for x, y in zip(xs, reversed(xs)):
                if op == "pow" and x < 0:
                    continue
                w = float(f(np.float64(x), np.float64(y)))
                if math.isnan(w):
                    continue
                if op == "mod" and (math.isinf(x) or math.isinf(y) or y == 0):
                    continue
                ev.append({"kind": "num", "op": op, "args": [bits(x), bits(y)], "want": bits(w),
                           "ulps": 0 if op in ("add", "sub", "mul", "div", "min", "max", "mod") else 2})
        for x, y in zip(xs, reversed(xs)):
            ev.append({"kind": "bool", "op": "lt", "args": [bits(x), bits(y)], "want": bool(x < y)})
            ev.append({"kind": "bool", "op": "le", "args": [bits(x), bits(y)], "want": bool(x <= y)})
            ev.append({"kind": "bool", "op": "eq", "args": [bits(x), bits(y)], "want": bool(x == y)})
            ev.append({"kind": "bool", "op": "finite", "args": [bits(x)], "want": bool(np.isfinite(x))})
        ev.append({"kind": "bool", "op": "nan", "args": [bits(float("nan"))], "want": True})
        arr = rng.normal(size=50) * 10.0 ** rng.uniform(-5, 5, 50)
        ev.append({"kind": "num", "op": "sum", "args": [bits(x) for x in arr], "want": bits(math.fsum(arr)), "ulps": 2})
        for s in ("1.77686", "2.903e-13", "299792.458", "0.1", "6378.14", "1e-300"):
            ev.append({"kind": "num", "op": "dec", "args": [s], "want": bits(float(s)), "ulps": 0})
        ev.append({"kind": "num", "op": "rat", "args": [1, 3], "want": bits(1 / 3), "ulps": 0})
        ev.append({"kind": "int", "op": "toint", "args": [bits(-2.5)], "want": -3})
        ev.append({"kind": "int", "op": "ulps", "args": [bits(1.0), bits(np.nextafter(1.0, 2.0))], "want": 1})
        ev.append({"kind": "int", "op": "ulps", "args": [bits(-5e-324), bits(5e-324)], "want": 2})
    return ev


def run(tier="quick", seed=0, pr=None):
    own = pr is None
    pr = pr or PropertyRun("SELFTEST", tier, seed)
    ev = float_events(seed, 40 if tier == "quick" else 400)
    fails = pr.validate("TraceSelfTest", ev, name="float64-selftest")
    # binding demonstration: a corrupted expectation must be rejected
    bad = [dict(ev[0]), dict(ev[1])]
    bad[1] = dict(bad[1], want=bits(12345.0))
    probe = PropertyRun("SELFTEST-NEG", tier, seed)
    f2 = probe.validate("TraceSelfTest", bad, name="corrupted")
    if len(f2) != 1:
        raise tlc.MachineryError("TraceKit accepted a corrupted trace")
    if own:
        return pr.finish("numpy vs Float64 override on random/boundary operands; one corrupted trace must be rejected")
    return fails
