"""Event generation shared by C04 / C05 / C07: drive grid_cdf_sampler, Taus and EAS.altDec and project to TraceTau."""
import numpy as np

from nssverif import use_repo, rng as rngmod, tables
from nssverif.bufs import Reuse
from nssverif.f64 import bits
from nssverif.pipeline import make_config


def _taus(version, prime=True):
    """a Taus object for `version`; first (prime) objects for the OTHER shipped versions are created and used in the same
    process, and one is used again afterwards by the callers' interleaving, so that state shared between objects
    (class-level caches, module globals) cannot hide"""
    use_repo()
    from nuspacesim.simulation.taus.taus import Taus
    if prime:
        for other in (1, 2, 3):
            if other != version:
                c = make_config({})
                c.simulation.tau_shower.table_version = str(other)
                t = Taus(c)
                b, e = np.array([0.2, 0.0005, 1.0]), np.array([7.3, 9.1, 11.0])
                try:
                    t.tau_exit_prob(b.copy(), e.copy())
                    t.tau_energy(b.copy(), e.copy(), np.array([0.3, 0.6, 0.9]))
                    with rngmod.constant(0.5):
                        t(b.copy(), e.copy())
                except Exception:
                    pass        # (the priming calls are not judged; the same inputs are, on the object under test)
    cfg = make_config({})
    cfg.simulation.tau_shower.table_version = str(version)
    return Taus(cfg), cfg


def points(t, rng, n):
    """(e, beta) query points: nodes, cell edges, cell centres, random interior"""
    _, _, axes = t["cdf"]
    E, B = np.asarray(axes["log_e_nu"]), np.asarray(axes["beta_rad"])
    pts = []
    for _ in range(n):
        r = rng.random()
        i, j = rng.integers(len(E)), rng.integers(len(B))
        if r < 0.2:
            pts.append((E[i], B[j]))
        elif r < 0.3:
            pts.append((E[i], rng.uniform(B[0], B[-1])))
        elif r < 0.4:
            pts.append((rng.uniform(E[0], E[-1]), B[j]))
        elif r < 0.5:
            i2, j2 = min(i, len(E) - 2), min(j, len(B) - 2)
            pts.append((0.5 * (E[i2] + E[i2 + 1]), 0.5 * (B[j2] + B[j2 + 1])))
        else:
            pts.append((rng.uniform(E[0], E[-1]), rng.uniform(B[0], B[-1])))
    return pts


def big_pick(rng, big):
    """sample of a large batch that is judged like any other event: both ends, around every multiple of 4096, random ones"""
    pick = set(range(6)) | set(range(big - 12, big)) | set(int(i) for i in rng.integers(0, big, 60))
    for kk in range(4096, big, 4096):
        pick |= {kk - 1, kk}
    return sorted(pick)


def c04_events(version, n, seed):
    use_repo()
    from nuspacesim.utils.cdf import grid_cdf_sampler
    rng = np.random.default_rng(seed)
    taus, cfg = _taus(version)
    t = tables.tau_arrays(version)
    data, names, axes = t["cdf"]
    E, B = np.asarray(axes["log_e_nu"]), np.asarray(axes["beta_rad"])
    events = []
    # ---- z events: groups of ascending u at the same (e, beta)
    pts = points(t, rng, max(4, n // 8))
    es, bs, us, grp = [], [], [], []
    for gi, (e, b) in enumerate(pts):
        k = 8
        u = np.sort(np.concatenate([rng.uniform(1e-9, 1 - 1e-9, k - 3), 10.0 ** rng.uniform(-9, -2, 2), [1 - 10.0 ** rng.uniform(-9, -3)]]))
        if (e in E) and (b in B) and rng.random() < 0.7:
            # u exactly on tabulated CDF values of this node's row (vertices / plateau ends)
            row = data[list(E).index(e), list(B).index(b)]
            inside = row[(row > 0) & (row < 1 - 1e-12)]
            if len(inside):
                u[:2] = np.sort(rng.choice(inside, 2))
                u = np.sort(u)
        es += [e] * len(u); bs += [b] * len(u); us += list(u); grp += [gi] * len(u)
    es, bs, us = np.array(es), np.array(bs), np.array(us)
    buf0 = Reuse()
    sampler = grid_cdf_sampler(taus.tau_cdf_grid)
    hz = len(es) // 2
    z = np.concatenate([sampler(buf0("e", es[:hz]), buf0("b", bs[:hz]), buf0("u", us[:hz])),
                        sampler(buf0("e", es[hz:2 * hz]), buf0("b", bs[hz:2 * hz]), buf0("u", us[hz:2 * hz])),
                        sampler(es[2 * hz:].copy(), bs[2 * hz:].copy(), us[2 * hz:].copy())])
    for i in range(len(z)):
        events.append({"kind": "z", "e": bits(es[i]), "b": bits(bs[i]), "u": bits(us[i]), "z": bits(z[i]), "grp": int(grp[i]),
                       "_m": {"ver": version, "e": es[i], "b": bs[i], "u": us[i], "z": float(z[i])}})
    # ---- ONE call with more events than any internal block size (2**16), not a multiple of it, angles inside / below / above the table mixed
    big = 70001
    Bb = rng.uniform(0.0, B[-1] * 1.15, big)
    Eb = rng.uniform(6.0, 12.0, big)
    Ub = rng.uniform(1e-6, 1 - 1e-6, big)
    try:
        Etb = np.asarray(taus.tau_energy(Bb.copy(), Eb.copy(), Ub.copy()), dtype=float)
        if Etb.shape != (big,):
            raise ValueError(f"result shape {Etb.shape}")
        errb = None
    except Exception as ex:
        Etb, errb = np.full(big, np.nan), repr(ex)[:200]
    for i in big_pick(rng, big):
        events.append({"kind": "etau", "e": bits(Eb[i]), "b": bits(Bb[i]), "u": bits(Ub[i]), "E": bits(Etb[i]),
                       "_m": {"ver": version, "e": Eb[i], "b": Bb[i], "u": Ub[i], "E": float(Etb[i]), "batch": big, "index": i, "error": errb}})
    # ---- tau_energy with a mix of in-range and out-of-range angles
    m = max(8, n // 3)
    pe = rng.uniform(6.0, 12.0, m)
    pb = rng.uniform(B[0], B[-1], m)
    sel = rng.random(m)
    pb[sel < 0.15] = rng.uniform(0.0, B[0], int((sel < 0.15).sum()))            # below the table: clamp
    pb[(sel >= 0.15) & (sel < 0.3)] = rng.uniform(B[-1] * 1.0001, np.pi / 2, int(((sel >= 0.15) & (sel < 0.3)).sum()))
    pb[0], pb[1], pb[2], pb[3] = 0.0, B[0], B[-1], np.pi / 2
    pe[4], pe[5] = 6.0, 12.0
    pu = rng.uniform(1e-6, 1 - 1e-6, m)
    buf = Reuse()
    half = m // 2
    try:
        Et = np.concatenate([taus.tau_energy(buf("b", pb[:half]), buf("e", pe[:half]), buf("u", pu[:half])),
                             taus.tau_energy(buf("b", pb[half:2 * half]), buf("e", pe[half:2 * half]), buf("u", pu[half:2 * half])),
                             taus.tau_energy(pb[2 * half:].copy(), pe[2 * half:].copy(), pu[2 * half:].copy())])
    except Exception as ex:        # a legal batch (mix of in-range and out-of-range angles, explicit u) that raises
        events.append({"kind": "reject", "e": bits(float(pe[0])), "raised": True,
                       "_m": {"ver": version, "what": "tau_energy legal batch raised", "batch": "mixed angles, explicit u", "exc": repr(ex)[:200]}})
        Et = np.full(m, np.nan)
    for i in range(m):
        events.append({"kind": "etau", "e": bits(pe[i]), "b": bits(pb[i]), "u": bits(pu[i]), "E": bits(Et[i]),
                       "_m": {"ver": version, "e": pe[i], "b": pb[i], "u": pu[i], "E": float(Et[i])}})
    # the BOTTOM of the fraction range: u inside the first rising step of a row, so that the sampled fraction lies between the two smallest
    # tabulated fractions of that row (table 3 tabulates fractions down to 1e-7 - below the binary32 epsilon used for the out-of-range filler)
    lowE, lowB, lowU = [], [], []
    firsts = []                                   # (index of the first positive CDF node, i, j) of every row of the table
    for i in range(len(E)):
        for j in range(len(B)):
            pos = np.flatnonzero(data[i, j] > 0)
            if len(pos) and pos[0] > 0:
                firsts.append((int(pos[0]), i, j))
    firsts.sort()
    pick = firsts[: max(20, n // 20)] + [firsts[int(k)] for k in rng.choice(len(firsts), size=min(len(firsts), max(10, n // 40)), replace=False)]
    for k0, i, j in pick:
        first = float(data[i, j][k0])
        for f in (0.03, 0.5, 0.97):
            lowE.append(E[i]); lowB.append(B[j]); lowU.append(first * f)
    if lowE:
        lowE, lowB, lowU = np.array(lowE), np.array(lowB), np.array(lowU)
        Elow = taus.tau_energy(lowB.copy(), lowE.copy(), lowU.copy())
        for i in range(len(lowE)):
            events.append({"kind": "etau", "e": bits(lowE[i]), "b": bits(lowB[i]), "u": bits(lowU[i]), "E": bits(Elow[i]),
                           "_m": {"ver": version, "e": float(lowE[i]), "b": float(lowB[i]), "u": float(lowU[i]), "E": float(Elow[i]), "batch": "first rising step"}})
    # other shapes and spellings of a batch: 2-D arrays (C and Fortran order), whole-number energies as an integer array
    k2 = 12
    fb = rng.uniform(B[0], B[-1], k2)
    fe = rng.uniform(6.0, 12.0, k2)
    fu = rng.uniform(0.01, 0.99, k2)
    forms = [("2-D", fb.reshape(3, 4), fe.reshape(3, 4), fu.reshape(3, 4)),
             ("Fortran 2-D", np.asfortranarray(fb.reshape(3, 4)), np.asfortranarray(fe.reshape(3, 4)), np.asfortranarray(fu.reshape(3, 4))),
             ("integer energies", fb, np.array([6, 7, 8, 9, 10, 11, 12, 9, 8, 7, 10, 11], dtype=np.int64), fu)]
    for form, xb, xe, xu in forms:
        try:
            Eo = np.asarray(taus.tau_energy(xb.copy(order="K"), xe.copy(order="K"), xu.copy(order="K")), dtype=float)
            if Eo.shape != np.shape(xb):
                raise ValueError(f"result shape {Eo.shape} for input shape {np.shape(xb)}")
        except Exception as ex:
            events.append({"kind": "reject", "e": bits(float(np.ravel(xe)[0])), "raised": True,
                           "_m": {"ver": version, "what": "tau_energy legal batch raised", "form": form, "exc": repr(ex)[:200]}})
            continue
        for idx in np.ndindex(np.shape(xb)):
            events.append({"kind": "etau", "e": bits(float(xe[idx])), "b": bits(float(xb[idx])), "u": bits(float(xu[idx])), "E": bits(float(Eo[idx])),
                           "_m": {"ver": version, "e": float(xe[idx]), "b": float(xb[idx]), "u": float(xu[idx]), "E": float(Eo[idx]), "form": form}})
    # the sampler itself (grid_cdf_sampler(grid)(log_e_nu, beta, u), the object tau_energy delegates to) on arrays in other MEMORY LAYOUTS:
    # transposed and Fortran-ordered 2-D arrays, strided and reversed views - the random number at an index belongs to the event at that index
    try:
        from nuspacesim.utils.cdf import grid_cdf_sampler
        sampler = grid_cdf_sampler(taus.tau_cdf_grid)
    except Exception:
        sampler = None
    if sampler is not None:
        def tri(shape):
            return rng.uniform(6.0, 12.0, shape), rng.uniform(B[0], B[-1], shape), rng.uniform(0.01, 0.99, shape)
        lay = []
        e_, b_, u_ = tri((4, 3)); lay.append(("sampler: transposed 2-D", e_.T, b_.T, u_.T))
        e_, b_, u_ = tri((3, 5)); lay.append(("sampler: Fortran 2-D", np.asfortranarray(e_), np.asfortranarray(b_), np.asfortranarray(u_)))
        e_, b_, u_ = tri((2, 3, 4)); lay.append(("sampler: swapped axes 3-D", e_.swapaxes(0, 2), b_.swapaxes(0, 2), u_.swapaxes(0, 2)))
        e_, b_, u_ = tri((30,)); lay.append(("sampler: strided views", e_[::3], b_[::3], u_[::3]))
        e_, b_, u_ = tri((9,)); lay.append(("sampler: reversed views", e_[::-1], b_[::-1], u_[::-1]))
        e_, b_, u_ = tri((4, 3)); lay.append(("sampler: transposed energies only", e_.T, np.ascontiguousarray(b_.T), np.ascontiguousarray(u_.T)))
        for form, xe, xb, xu in lay:
            try:
                z = np.asarray(sampler(xe, xb, xu), dtype=float)
                if z.shape != np.shape(xe):
                    raise ValueError(f"result shape {z.shape} for input shape {np.shape(xe)}")
            except Exception as ex:
                events.append({"kind": "reject", "e": bits(float(np.ravel(xe)[0])), "raised": True,
                               "_m": {"ver": version, "what": "sampler legal batch raised", "form": form, "exc": repr(ex)[:200]}})
                continue
            for idx in np.ndindex(np.shape(xe)):
                Eo = float(z[idx]) * (10 ** float(xe[idx]))
                events.append({"kind": "etau", "e": bits(float(xe[idx])), "b": bits(float(xb[idx])), "u": bits(float(xu[idx])), "E": bits(Eo),
                               "_m": {"ver": version, "e": float(xe[idx]), "b": float(xb[idx]), "u": float(xu[idx]), "E": Eo, "form": form}})
    # all angles out of range / all low / single event batches
    for bvals in ([np.pi / 3] * 3, [0.0] * 3, [B[5]], [0.0], [1.2]):
        bb = np.array(bvals, dtype=float)
        ee = rng.uniform(6.0, 12.0, len(bb))
        uu = rng.uniform(0.01, 0.99, len(bb))
        try:
            Eo = taus.tau_energy(bb.copy(), ee.copy(), uu.copy())
        except Exception as ex:
            events.append({"kind": "reject", "e": bits(ee[0]), "raised": True,
                           "_m": {"ver": version, "what": "tau_energy legal batch raised", "b": bvals, "exc": repr(ex)[:200]}})
            continue
        for i in range(len(bb)):
            events.append({"kind": "etau", "e": bits(ee[i]), "b": bits(bb[i]), "u": bits(uu[i]), "E": bits(Eo[i]),
                           "_m": {"ver": version, "e": ee[i], "b": bb[i], "u": uu[i], "E": float(Eo[i]), "batch": "special"}})
    # ---- rejection of energies outside the table
    for e in (5.0, 5.999999, np.nextafter(6.0, 0), 6.0, 12.0, np.nextafter(12.0, 13), 12.000001, 13.5):
        for what in ("tau_energy", "tau_exit_prob", "__call__"):
          for where in ("in-table angle", "below-minimum angle"):
            # the offending energy sits at an angle inside the table / below the tabulated minimum (minimum-angle edge: needs the table too)
            bb = np.array([0.3, 0.001, 0.2]) if where == "in-table angle" else np.array([0.3, 0.2, 0.0005])
            ee = np.array([8.0, 9.0, e]) if what != "__call__" else np.array([e, e, e])
            try:
                with rngmod.constant(0.4):
                    if what == "tau_energy":
                        taus.tau_energy(bb, ee, np.array([0.5, 0.5, 0.5]))
                    elif what == "tau_exit_prob":
                        taus.tau_exit_prob(bb[::-1].copy() if where == "in-table angle" else bb, ee)
                    else:
                        taus(bb[::-1].copy() if where == "in-table angle" else bb, ee if where == "in-table angle" else np.array([8.0, 9.0, e]))
                raised = False
            except Exception:
                raised = True
            events.append({"kind": "reject", "e": bits(e), "raised": raised, "_m": {"ver": version, "e": e, "what": what, "where": where, "raised": raised}})
    # ---- explicit u == internal generator for the same numbers (no assumption on draw order: constant stream)
    for c in (0.137, 0.5, 0.93):
        k = 40
        bb = rng.uniform(0.0, 1.0, k)
        ee = rng.uniform(6.0, 12.0, k)
        try:
            with rngmod.constant(c):
                zi = taus.tau_energy(bb.copy(), ee.copy())
            zx = taus.tau_energy(bb.copy(), ee.copy(), np.full(k, c))
        except Exception as ex:      # legal calls: a failure is an event, not a crash of the driver
            events.append({"kind": "reject", "e": bits(float(ee[0])), "raised": True,
                           "_m": {"ver": version, "what": "tau_energy legal batch raised", "batch": "explicit u = internal generator", "exc": repr(ex)[:200]}})
            continue
        events.append({"kind": "explicit", "zint": [bits(x) for x in zi], "zexp": [bits(x) for x in zx],
                       "_m": {"ver": version, "c": c, "n": k, "equal": bool(np.array_equal(zi, zx))}})
    if version == 3:
        events += synthetic_events(max(10, n // 20), seed + 9)
    events += alt_sampler_events(version, taus, B, rng, max(3, n // 150))
    # recorded stream, all angles in range: a single draw of the batch length is position-wise unambiguous
    k = 50
    bb = rng.uniform(B[0], B[-1], k)
    ee = rng.uniform(6.0, 12.0, k)
    np.random.seed(seed + 5)
    with rngmod.Recording() as rec:
        zi = taus.tau_energy(bb.copy(), ee.copy())
    if len(rec.draws) == 1 and np.size(rec.draws[0]["values"]) == k:
        zx = taus.tau_energy(bb.copy(), ee.copy(), np.asarray(rec.draws[0]["values"]).reshape(k))
        events.append({"kind": "explicit", "zint": [bits(x) for x in zi], "zexp": [bits(x) for x in zx],
                       "_m": {"ver": version, "c": "recorded", "n": k, "equal": bool(np.array_equal(zi, zx))}})
    return events


def alt_sampler_events(version, taus, B, rng, k):
    """the alternative samplers of cdf.py (fixed neutrino energy): lerp = the same bilinear inverse transform, nearest = the
    distribution of the nearest tabulated angle.  Extended specification (EXT clauses)."""
    from nuspacesim.utils.cdf import lerp_cdf_sampler, nearest_cdf_sampler
    events = []
    mids = 0.5 * (B[1:] + B[:-1])
    for _ in range(k):
        e = float(rng.choice([6.0, 12.0, rng.uniform(6, 12), rng.uniform(6, 12), 7.25]))
        m = 12
        bb = rng.uniform(B[0], B[-1], m)
        bb[0], bb[1], bb[2] = B[0], B[-1], B[rng.integers(len(B))]
        uu = rng.uniform(1e-6, 1 - 1e-6, m)
        for name, mk in (("lerp", lerp_cdf_sampler), ("nearest", nearest_cdf_sampler)):
            b2 = bb.copy()
            if name == "nearest":      # stay clear of the mid-points, where "nearest" is a tie
                near = np.min(np.abs(b2[:, None] - mids[None, :]), axis=1) < 1e-9
                b2 = b2[~near]
            try:
                z = np.asarray(mk(taus.tau_cdf_grid, e)(b2.copy(), uu[: len(b2)].copy()), dtype=float)
            except Exception as ex:
                events.append({"kind": "zalt", "sampler": name, "e": bits(e), "b": bits(b2[0]), "u": bits(uu[0]), "z": bits(-1.0),
                               "_m": {"ver": version, "sampler": name, "raised": repr(ex)[:200]}})
                continue
            for i in range(len(b2)):
                events.append({"kind": "zalt", "sampler": name, "e": bits(e), "b": bits(b2[i]), "u": bits(uu[i]), "z": bits(z[i]),
                               "_m": {"ver": version, "sampler": name, "e": e, "b": float(b2[i]), "u": float(uu[i]), "z": float(z[i])}})
    return events


def synthetic_events(n, seed):
    """grid_cdf_sampler on small synthetic grids wrapped in NssGrid (rows non-decreasing 0..1 with plateaus)"""
    use_repo()
    import itertools
    from nuspacesim.utils.cdf import grid_cdf_sampler
    from nuspacesim.utils.grid import NssGrid
    from nssverif.f64 import bits_array
    rng = np.random.default_rng(seed)
    rows = [np.array([0, a, b, c, 4]) / 4.0 for a, b, c in itertools.combinations_with_replacement(range(5), 3)]
    zs = np.array([1 / 16, 1 / 8, 1 / 4, 1 / 2, 1.0])
    ea, ba = np.array([6.0, 7.0]), np.array([0.1, 0.3])
    events = []
    for _ in range(n):
        data = np.array([[rows[rng.integers(len(rows))] for _ in range(2)] for _ in range(2)])
        g = NssGrid(data, [ea, ba, zs], ["log_e_nu", "beta_rad", "e_tau_frac"])
        k = 6
        node = rng.random() < 0.5
        e = np.full(k, ea[rng.integers(2)]) if node else rng.choice([6.0, 6.25, 6.5, 7.0], k)
        b = np.full(k, ba[rng.integers(2)]) if node else rng.choice([0.1, 0.15, 0.2, 0.3], k)
        u = rng.integers(1, 16, k) / 16.0
        z = grid_cdf_sampler(g)(e, b, u)
        T = {"e": bits_array(ea), "b": bits_array(ba), "z": bits_array(zs), "data": bits_array(data)}
        for i in range(k):
            row = data[list(ea).index(e[i]), list(ba).index(b[i])] if node else zs
            events.append({"kind": "zsyn", "T": T, "e": bits(e[i]), "b": bits(b[i]), "u": bits(u[i]), "zz": bits(z[i]),
                           "node": bool(node), "row": bits_array(row),
                           "_m": {"e": e[i], "b": b[i], "u": u[i], "z": float(z[i]), "grid": data.tolist()}})
    return events


def c05_events(version, n, seed, all_nodes=True):
    rng = np.random.default_rng(seed)
    taus, cfg = _taus(version)
    t = tables.tau_arrays(version)
    data, names, axes = t["pexit"]
    E, B = np.asarray(axes["log_e_nu"]), np.asarray(axes["beta_rad"])
    es, bs = [], []
    if all_nodes:
        ee, bb = np.meshgrid(E, B, indexing="ij")
        es += list(ee.ravel()); bs += list(bb.ravel())
    for e, b in points({"cdf": (None, None, axes)}, rng, n):
        es.append(e); bs.append(b)
    k = max(6, n // 6)
    es += list(rng.uniform(6, 12, k)); bs += list(rng.uniform(0.0, B[0], k))               # below: clamp
    es += list(rng.uniform(6, 12, k)); bs += list(rng.uniform(B[-1] * 1.0001, np.pi / 2, k))   # above: floor
    es += [6.0, 12.0, 6.0, 12.0]; bs += [B[0], B[-1], 0.0, np.pi / 2]
    es, bs = np.array(es), np.array(bs)
    # several calls on ONE object with different batch compositions: values must not depend on the history
    order = rng.permutation(len(es))
    p = np.empty(len(es))
    buf = Reuse()       # chunks of equal length are passed in the SAME array objects, refilled (argument identity must not matter)
    for chunk in np.array_split(order, 12):
        p[chunk] = taus.tau_exit_prob(buf("b", bs[chunk]), buf("e", es[chunk]))
    p2 = taus.tau_exit_prob(bs.copy(), es.copy())
    events = []
    for i in range(len(es)):
        events.append({"kind": "pexit", "e": bits(es[i]), "b": bits(bs[i]), "p": bits(p[i]),
                       "_m": {"ver": version, "e": es[i], "b": bs[i], "p": float(p[i])}})
        if p2[i] != p[i]:
            events.append({"kind": "pexit", "e": bits(es[i]), "b": bits(bs[i]), "p": bits(p2[i]),
                           "_m": {"ver": version, "e": es[i], "b": bs[i], "p": float(p2[i]), "second_call": True}})
    # ONE call with more events than any internal block size (2**16), not a multiple of it
    big = 70001
    Bb = rng.uniform(0.0, B[-1] * 1.15, big)
    Eb = rng.uniform(6.0, 12.0, big)
    try:
        Pb = np.asarray(taus.tau_exit_prob(Bb.copy(), Eb.copy()), dtype=float)
        if Pb.shape != (big,):
            raise ValueError(f"result shape {Pb.shape}")
        errb = None
    except Exception as ex:
        Pb, errb = np.full(big, np.nan), repr(ex)[:200]
    for i in big_pick(rng, big):
        events.append({"kind": "pexit", "e": bits(Eb[i]), "b": bits(Bb[i]), "p": bits(Pb[i]),
                       "_m": {"ver": version, "e": Eb[i], "b": Bb[i], "p": float(Pb[i]), "batch": big, "index": i, "error": errb}})
    k2 = 12
    fb = rng.uniform(0.0, B[-1], k2)
    fe = rng.uniform(6.0, 12.0, k2)
    for form, xb, xe in (("2-D", fb.reshape(3, 4), fe.reshape(3, 4)),
                         ("Fortran 2-D", np.asfortranarray(fb.reshape(3, 4)), np.asfortranarray(fe.reshape(3, 4))),
                         ("integer energies", fb, np.array([6, 7, 8, 9, 10, 11, 12, 9, 8, 7, 10, 11], dtype=np.int64))):
        try:
            po = np.asarray(taus.tau_exit_prob(xb.copy(order="K"), xe.copy(order="K")), dtype=float)
            if po.shape != np.shape(xb):
                raise ValueError(f"result shape {po.shape} for input shape {np.shape(xb)}")
        except Exception as ex:
            events.append({"kind": "reject", "e": bits(float(np.ravel(xe)[0])), "raised": True,
                           "_m": {"ver": version, "e": float(np.ravel(xe)[0]), "what": "tau_exit_prob legal batch raised", "form": form, "raised": True, "exc": repr(ex)[:200]}})
            continue
        for idx in np.ndindex(np.shape(xb)):
            events.append({"kind": "pexit", "e": bits(float(xe[idx])), "b": bits(float(xb[idx])), "p": bits(float(po[idx])),
                           "_m": {"ver": version, "e": float(xe[idx]), "b": float(xb[idx]), "p": float(po[idx]), "form": form}})
    for e in (5.0, np.nextafter(6.0, 0), 6.0, 12.0, np.nextafter(12.0, 13), 14.0):
        # the offending energy at an angle inside the table, at an angle BELOW the tabulated minimum (evaluated on the minimum-angle edge,
        # so it needs the table as well; every other event of the batch is fine), and alone
        for where, bb, ee in (("in-table angle", np.array([0.3, 0.2]), np.array([8.0, e])),
                              ("below-minimum angle", np.array([0.3, 0.5 * float(B[0]), 0.2]), np.array([8.0, e, 9.0])),
                              ("angle 0", np.array([0.0, 0.3]), np.array([e, 8.0])),
                              ("single event below the minimum angle", np.array([1e-5]), np.array([e]))):
            try:
                taus.tau_exit_prob(bb, ee)
                raised = False
            except Exception:
                raised = True
            events.append({"kind": "reject", "e": bits(e), "raised": raised,
                           "_m": {"ver": version, "e": e, "what": "tau_exit_prob", "where": where, "raised": raised}})
    return events


def c07_events(version, n, seed):
    use_repo()
    from nuspacesim.simulation.eas_optical.eas import EAS
    from astropy.constants import R_earth
    import astropy.units as u
    rng = np.random.default_rng(seed)
    taus, cfg = _taus(version)
    R = float(R_earth.to(u.km).value)
    t = tables.tau_arrays(version)
    _, _, axes = t["cdf"]
    B = np.asarray(axes["beta_rad"])
    events = []
    # ONE call with more events than any internal block size (2**16) and not a multiple of it: a sample of the events (both ends,
    # around every multiple of 4096, random ones) is judged like any other event
    big = 70001
    cfg.simulation.tau_shower.etau_frac = 0.5
    bbig = rng.uniform(np.radians(0.2), np.radians(42.0), big)
    ebig = rng.uniform(6.0, 12.0, big)
    pickbig = set(range(6)) | set(range(big - 12, big)) | set(int(i) for i in rng.integers(0, big, 60))
    for kk in range(4096, big, 4096):
        pickbig |= {kk - 1, kk}
    pickbig = sorted(pickbig)
    try:
        with rngmod.constant(0.41):
            tbB, tgB, tEB, EshB, _pB = taus(bbig.copy(), ebig.copy())
        ubig = rng.uniform(1e-3, 1.0, big)
        altB, LB = EAS(cfg).altDec(bbig.copy(), tbB.copy(), tgB.copy(), ubig.copy())
        if not all(np.shape(x) == (big,) for x in (tbB, tgB, tEB, EshB, altB, LB)):
            raise ValueError("result shapes differ from the batch length")
        errB = None
    except Exception as ex:
        tbB = tgB = tEB = EshB = altB = LB = np.full(big, np.nan)
        ubig = np.full(big, 0.5)
        errB = repr(ex)[:200]
    for i in pickbig:
        events.append({"kind": "kin", "E": bits(tEB[i]), "f": bits(0.5), "g": bits(tgB[i]), "bt": bits(tbB[i]), "Esh": bits(EshB[i]),
                       "_m": {"ver": version, "E": float(tEB[i]), "frac": 0.5, "gamma": float(tgB[i]), "beta_tau": float(tbB[i]), "batch": big,
                              "index": i, "error": errB}})
        events.append({"kind": "dec", "beta": bits(bbig[i]), "g": bits(tgB[i]), "bt": bits(tbB[i]), "u": bits(ubig[i]), "L": bits(LB[i]),
                       "alt": bits(altB[i]), "R": bits(R),
                       "_m": {"ver": version, "beta": bbig[i], "gamma": float(tgB[i]), "u": ubig[i], "L": float(LB[i]), "alt": float(altB[i]),
                              "batch": big, "index": i}})
    for frac in (0.5, 1.0, 0.01, 1e-3):
        cfg.simulation.tau_shower.etau_frac = frac
        k = max(8, n // 4)
        bb = rng.uniform(0.0, np.radians(42.0), k)
        ee = rng.uniform(6.0, 12.0, k)
        ee[:3] = [6.0, 12.0, 6.0]
        bb[:3] = [B[0], B[-1], np.radians(42.0)]
        c = float(rng.choice([1e-9, 0.02, 0.5, 0.999]))     # small c: the lowest energies the table can give
        with rngmod.constant(c):
            tb, tg, tE, Esh, _p = taus(bb.copy(), ee.copy())
        for i in range(k):
            events.append({"kind": "kin", "E": bits(tE[i]), "f": bits(frac), "g": bits(tg[i]), "bt": bits(tb[i]), "Esh": bits(Esh[i]),
                           "_m": {"ver": version, "E": float(tE[i]), "frac": frac, "gamma": float(tg[i]), "beta_tau": float(tb[i])}})
        # the same stage with every registered plot requested (non-interactive backend): the plot functions are handed the very
        # arrays the stage returns, and what the caller receives must still be the kinematics of the sampled taus
        if frac in (0.5, 1e-3):
            from nssverif import plots
            kp = min(k, 60)
            bp, ep = np.radians(rng.uniform(1.0, 41.0, kp)), rng.uniform(6.5, 11.5, kp)
            try:
                with rngmod.constant(c):
                    pb, pg, pE, pEsh, _pp = plots.call(taus, bp.copy(), ep.copy(), plot=True)
            except Exception as ex:
                pb = pg = pE = pEsh = np.full(kp, np.nan)
                err = repr(ex)[:200]
            else:
                err = None
            for i in range(kp):
                events.append({"kind": "kin", "E": bits(pE[i]), "f": bits(frac), "g": bits(pg[i]), "bt": bits(pb[i]), "Esh": bits(pEsh[i]),
                               "_m": {"ver": version, "E": float(pE[i]), "frac": frac, "gamma": float(pg[i]), "beta_tau": float(pb[i]),
                                      "plots_requested": True, "error": err}})
        eas = EAS(cfg)
        uu = rng.uniform(0.0, 1.0, k)
        uu[:4] = [1.0, 5e-324, 1e-300, np.nextafter(1.0, 0)]
        alt, L = eas.altDec(bb.copy(), tb.copy(), tg.copy(), uu.copy())
        for i in range(k):
            events.append({"kind": "dec", "beta": bits(bb[i]), "g": bits(tg[i]), "bt": bits(tb[i]), "u": bits(uu[i]), "L": bits(L[i]),
                           "alt": bits(alt[i]), "R": bits(R),
                           "_m": {"ver": version, "beta": bb[i], "gamma": float(tg[i]), "u": uu[i], "L": float(L[i]), "alt": float(alt[i])}})
        # the SAME array objects passed to a second call (a second draw for the same taus): judged against pristine copies
        keep = [bb.copy(), tb.copy(), tg.copy()]
        u1 = rng.uniform(0.05, 1.0, k)
        eas.altDec(bb, tb, tg, u1)
        u2r = rng.uniform(0.05, 1.0, k)
        alt_r, L_r = eas.altDec(bb, tb, tg, u2r)
        for i in range(0, k, 3):
            events.append({"kind": "dec", "beta": bits(keep[0][i]), "g": bits(keep[2][i]), "bt": bits(keep[1][i]), "u": bits(u2r[i]),
                           "L": bits(L_r[i]), "alt": bits(alt_r[i]), "R": bits(R),
                           "_m": {"ver": version, "second_call_same_arrays": True, "gamma": float(keep[2][i]), "u": float(u2r[i]),
                                  "L": float(L_r[i])}})
        bb, tb, tg = keep
        # internal generator == explicit u (constant stream)
        with rngmod.constant(0.31):
            alt_i, L_i = eas.altDec(bb.copy(), tb.copy(), tg.copy())
        alt_x, L_x = eas.altDec(bb.copy(), tb.copy(), tg.copy(), np.full(k, 0.31))
        # (C07 does not state this for the decay stage - C04 states it for the tau energy: an extended-spec clause here)
        events.append({"kind": "explicit_ext", "zint": [bits(x) for x in np.concatenate([alt_i, L_i])],
                       "zexp": [bits(x) for x in np.concatenate([alt_x, L_x])], "_m": {"what": "altDec", "n": k}})
        # monotonicity pairs
        u2 = np.clip(uu * rng.uniform(1.0, 3.0, k), 0, 1.0)
        b3 = np.clip(bb + rng.uniform(0, 0.2, k), 0, np.radians(42.0))
        buf = Reuse()
        alt2, L2 = eas.altDec(buf("b", bb), buf("tb", tb), buf("tg", tg), buf("u", u2))
        alt3, L3 = eas.altDec(buf("b", b3), buf("tb", tb), buf("tg", tg), buf("u", uu))
        for i in range(k):
            events.append({"kind": "decpair", "beta": bits(bb[i]), "u1": bits(uu[i]), "L1": bits(L[i]), "alt1": bits(alt[i]),
                           "u2": bits(u2[i]), "L2": bits(L2[i]), "alt2": bits(alt2[i]), "beta3": bits(b3[i]), "alt3": bits(alt3[i]),
                           "_m": {"ver": version, "beta": bb[i], "u1": uu[i], "u2": u2[i], "L1": float(L[i]), "L2": float(L2[i])}})
    return events


def job(j):
    f = {"c04": c04_events, "c05": c05_events, "c07": c07_events}[j["which"]]
    return j["version"], f(j["version"], j["n"], j["seed"])
