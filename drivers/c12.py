"""C12 - neutrino energy spectrum sampling is exact and normalised.

spec      : Spectrum.tla (CDF with expm1, quantile, integral), MCSpectrum lattice incl. index 1, 1 +- ulp, u = 0 and 1
code->spec: Spectra(config)(N) driven by a scripted np.random (prescribed uniforms incl. 0 and the value that maps to 1)
            and by the real generator under a recorder; TLC checks CDF(x) = u per event, range, factors
"""
import numpy as np

from nssverif import use_repo, rng as rngmod
from nssverif.f64 import bits
from nssverif.kit import PropertyRun
from nssverif.pipeline import make_config


def events(seed, ncfg, nper):
    use_repo()
    from nuspacesim.simulation.spectra.spectra import Spectra
    from nuspacesim.config import Simulation
    rng = np.random.default_rng(seed)
    ev = []
    cfgs = [(1.0, 6.0, 12.0), (2.0, 6.0, 12.0), (4.0, 6.0, 12.0), (0.0, 7.0, 9.0), (np.nextafter(1.0, 2), 6.0, 12.0),
            (np.nextafter(1.0, 0), 6.0, 12.0), (1.5, 6.0, 12.0), (2.2, 6.0, 12.0), (3.0, 7.5, 12.0), (0.5, 6.0, 7.5), (4.0, 6.0, 6.001),
            (1.0, 11.0, 12.0), (1.0000001, 6.0, 12.0), (0.999, 6.0, 12.0)]
    # ranges down to one ulp wide, with indices at and around 1 ("all bounds 6 <= lower < upper <= 12")
    for p0 in (0.999, 1.0, 1.0 + 1e-12, 1.0005, 2.0, 0.0, 4.0, float(np.nextafter(1.0, 0))):
        for lo0, w in ((11.0, 1e-14), (7.0, 1e-9), (6.0, 0.0), (9.0, 1e-12), (12.0 - 1e-6, 1e-6)):
            hi0 = float(np.nextafter(lo0, 13.0)) if w == 0.0 else min(12.0, lo0 + w)
            cfgs.append((p0, lo0, hi0))
    for _ in range(ncfg):
        lo = float(rng.uniform(6.0, 11.5))
        cfgs.append((float(rng.uniform(0.0, 4.0)), lo, float(rng.uniform(lo + 1e-3, 12.0))))
    special = np.array([0.0, 5e-324, 1e-300, 1e-17, 0.5, 1 - 2.0 ** -53, 1 - 2.0 ** -52, 0.999999999])
    for p, lo, hi in cfgs:
        c = make_config({})
        c.simulation.spectrum = Simulation.PowerSpectrum(index=p, lower_bound=lo, upper_bound=hi)
        sp = Spectra(c)
        meta0 = {"index": p, "lo": lo, "hi": hi}
        for n, script in ((len(special) + nper, np.concatenate([special, rng.random(nper)])), (1, [0.3]), (0, [0.5]), (7, rng.random(7))):
            try:
                with rngmod.Scripted(script) as sc:
                    x, norm, wsum = sp(n)
            except Exception as ex:
                ev.append({"kind": "call", "n": n, "len": -1, "norm": bits(float("nan")), "wsum": bits(float("nan")), "spec": "power",
                           "p": bits(p), "lo": bits(lo), "hi": bits(hi), "_m": dict(meta0, n=n, error=repr(ex)[:200])})
                continue
            x = np.atleast_1d(np.asarray(x, dtype=float))
            ev.append({"kind": "call", "n": n, "len": int(len(x)), "norm": bits(norm), "wsum": bits(wsum), "spec": "power",
                       "p": bits(p), "lo": bits(lo), "hi": bits(hi), "_m": dict(meta0, n=n, norm=float(norm), wsum=float(wsum))})
            u = np.concatenate([np.ravel(s) for s in sc.served]) if sc.served else np.array([])
            if len(u) == len(x):          # one uniform per event, in event order: the pairing is unambiguous
                for i in range(len(x)):
                    ev.append({"kind": "power", "x": bits(x[i]), "u": bits(min(u[i], 1.0)), "p": bits(p), "lo": bits(lo), "hi": bits(hi),
                               "_m": dict(meta0, u=float(u[i]), x=float(x[i]))})
        # the real generator, recorded
        np.random.seed(seed + 3)
        try:
            with rngmod.Recording() as rec:
                x, norm, wsum = sp(200)
        except Exception as ex:
            ev.append({"kind": "call", "n": 200, "len": -1, "norm": bits(float("nan")), "wsum": bits(float("nan")), "spec": "power",
                       "p": bits(p), "lo": bits(lo), "hi": bits(hi), "_m": dict(meta0, n=200, error=repr(ex)[:200])})
            continue
        if len(rec.draws) == 1 and np.size(rec.draws[0]["values"]) == 200:
            u = np.ravel(rec.draws[0]["values"])
            for i in range(0, 200, 4):
                ev.append({"kind": "power", "x": bits(x[i]), "u": bits(min(u[i], 1.0)), "p": bits(p), "lo": bits(lo), "hi": bits(hi),
                           "_m": dict(meta0, u=float(u[i]), x=float(x[i]), gen="real")})
    # ONE call with more events than any internal block size (2**16), not a multiple of it (recorded real generator; a sample of the
    # events - both ends, around every multiple of 4096, random ones - is judged like any other event), power law and mono-energetic
    big = 70001
    for p, lo, hi in ((2.0, 6.0, 12.0), (1.0, 7.0, 11.0), (float(rng.uniform(0.0, 4.0)), 8.0, 10.5)):
        c = make_config({})
        c.simulation.spectrum = Simulation.PowerSpectrum(index=p, lower_bound=lo, upper_bound=hi)
        meta0 = {"index": p, "lo": lo, "hi": hi, "batch": big}
        np.random.seed(seed + 5)
        try:
            with rngmod.Recording() as rec:
                x, norm, wsum = Spectra(c)(big)
            x = np.atleast_1d(np.asarray(x, dtype=float))
        except Exception as ex:
            ev.append({"kind": "call", "n": big, "len": -1, "norm": bits(float("nan")), "wsum": bits(float("nan")), "spec": "power",
                       "p": bits(p), "lo": bits(lo), "hi": bits(hi), "_m": dict(meta0, n=big, error=repr(ex)[:200])})
            continue
        ev.append({"kind": "call", "n": big, "len": int(len(x)), "norm": bits(norm), "wsum": bits(wsum), "spec": "power",
                   "p": bits(p), "lo": bits(lo), "hi": bits(hi), "_m": dict(meta0, n=big, norm=float(norm), wsum=float(wsum))})
        u = np.concatenate([np.ravel(d["values"]) for d in rec.draws]) if rec.draws else np.array([])
        if len(u) == len(x) == big:
            pick = set(range(6)) | set(range(big - 12, big)) | set(int(i) for i in rng.integers(0, big, 60))
            for kk in range(4096, big, 4096):
                pick |= {kk - 1, kk}
            for i in sorted(pick):
                ev.append({"kind": "power", "x": bits(x[i]), "u": bits(min(u[i], 1.0)), "p": bits(p), "lo": bits(lo), "hi": bits(hi),
                           "_m": dict(meta0, u=float(u[i]), x=float(x[i]), index=i, gen="real")})
    # one Spectra object reused while the configuration's spectrum is replaced (what the CLI overrides do to a config):
    # whatever the object samples from, the two factors returned with the sample must still multiply to 1
    c = make_config({})
    sp = Spectra(c)
    for p, lo, hi in cfgs[:8]:
        for spectrum in (Simulation.PowerSpectrum(index=p, lower_bound=lo, upper_bound=hi), Simulation.MonoSpectrum(log_nu_energy=lo)):
            c.simulation.spectrum = spectrum
            try:
                with rngmod.constant(0.4):
                    x, norm, wsum = sp(5)
                n = len(np.atleast_1d(x))
            except Exception as ex:
                n, norm, wsum = -1, float("nan"), float("nan")
            ev.append({"kind": "call", "n": 5, "len": int(n), "norm": bits(norm), "wsum": bits(wsum), "spec": "mono",
                       "p": bits(p), "lo": bits(lo), "hi": bits(hi),
                       "_m": {"reused_object": True, "spectrum": type(spectrum).__name__, "index": p, "lo": lo, "hi": hi,
                              "norm": float(norm), "wsum": float(wsum)}})
    # ONE spectrum object edited in place between uses (a scan over bounds / index on a live configuration), and copies made with
    # model_copy(update=...) after first use: every sample must follow the numbers the object holds NOW
    c = make_config({})
    spec0 = Simulation.PowerSpectrum(index=2.0, lower_bound=6.0, upper_bound=12.0)
    c.simulation.spectrum = spec0
    sp = Spectra(c)
    script = np.array([0.05, 0.3, 0.5, 0.7, 0.95, 0.999])
    steps = [("use", {}), ("inplace", {"upper_bound": 9.0}), ("inplace", {"lower_bound": 7.5}), ("inplace", {"index": 3.1}),
             ("copy", {"upper_bound": 11.0, "lower_bound": 6.5}), ("inplace", {"index": 0.5}), ("copy", {"index": 1.0}), ("inplace", {"upper_bound": 12.0})]
    for how, upd in steps:
        if how == "inplace":
            for k, v in upd.items():
                setattr(c.simulation.spectrum, k, v)
        elif how == "copy":
            c.simulation.spectrum = c.simulation.spectrum.model_copy(update=upd)
        cur = c.simulation.spectrum
        p, lo, hi = float(cur.index), float(cur.lower_bound), float(cur.upper_bound)
        meta0 = {"index": p, "lo": lo, "hi": hi, "edited": how, "update": upd}
        try:
            with rngmod.Scripted(script) as sc:
                x, norm, wsum = sp(len(script))
            x = np.atleast_1d(np.asarray(x, dtype=float))
            u = np.concatenate([np.ravel(v) for v in sc.served]) if sc.served else np.array([])
        except Exception as ex:
            ev.append({"kind": "call", "n": len(script), "len": -1, "norm": bits(float("nan")), "wsum": bits(float("nan")), "spec": "power",
                       "p": bits(p), "lo": bits(lo), "hi": bits(hi), "_m": dict(meta0, error=repr(ex)[:200])})
            continue
        ev.append({"kind": "call", "n": len(script), "len": int(len(x)), "norm": bits(norm), "wsum": bits(wsum), "spec": "power",
                   "p": bits(p), "lo": bits(lo), "hi": bits(hi), "_m": dict(meta0, norm=float(norm), wsum=float(wsum))})
        if len(u) == len(x):
            for i in range(len(x)):
                ev.append({"kind": "power", "x": bits(x[i]), "u": bits(min(u[i], 1.0)), "p": bits(p), "lo": bits(lo), "hi": bits(hi),
                           "_m": dict(meta0, u=float(u[i]), x=float(x[i]))})
    # the same call with every registered plot requested (non-interactive backend): the plot functions are handed the very array the
    # caller receives - which must still be, element by element, the image of its uniform number
    from nssverif import plots
    for p, lo, hi in ((2.0, 6.0, 12.0), (1.0, 7.0, 9.0), (3.3, 6.5, 11.0)):
        c = make_config({})
        c.simulation.spectrum = Simulation.PowerSpectrum(index=p, lower_bound=lo, upper_bound=hi)
        sp = Spectra(c)
        script = rng.random(40)
        meta0 = {"index": p, "lo": lo, "hi": hi, "plots_requested": True}
        try:
            with rngmod.Scripted(script) as sc:
                x, norm, wsum = plots.call(sp, len(script), plot=True)
            x = np.atleast_1d(np.asarray(x, dtype=float))
            u = np.concatenate([np.ravel(v) for v in sc.served]) if sc.served else np.array([])
        except Exception as ex:
            ev.append({"kind": "call", "n": len(script), "len": -1, "norm": bits(float("nan")), "wsum": bits(float("nan")), "spec": "power",
                       "p": bits(p), "lo": bits(lo), "hi": bits(hi), "_m": dict(meta0, error=repr(ex)[:200])})
            continue
        ev.append({"kind": "call", "n": len(script), "len": int(len(x)), "norm": bits(norm), "wsum": bits(wsum), "spec": "power",
                   "p": bits(p), "lo": bits(lo), "hi": bits(hi), "_m": dict(meta0, norm=float(norm), wsum=float(wsum))})
        if len(u) == len(x):
            for i in range(len(x)):
                ev.append({"kind": "power", "x": bits(x[i]), "u": bits(min(u[i], 1.0)), "p": bits(p), "lo": bits(lo), "hi": bits(hi),
                           "_m": dict(meta0, u=float(u[i]), x=float(x[i]))})
    for le in (6.0, 8.0, 9.3, 12.0, float(rng.uniform(6, 12))):
        c = make_config({})
        c.simulation.spectrum = Simulation.MonoSpectrum(log_nu_energy=le)
        for n in (0, 1, 7, 1000):
            x, norm, wsum = Spectra(c)(n)
            x = np.atleast_1d(x)
            ev.append({"kind": "call", "n": n, "len": int(len(x)), "norm": bits(norm), "wsum": bits(wsum), "spec": "mono",
                       "p": bits(0.0), "lo": bits(le), "hi": bits(le), "_m": {"mono": le, "n": n}})
            for v in x[:20]:
                ev.append({"kind": "mono", "x": bits(v), "want": bits(le), "_m": {"mono": le, "x": float(v)}})
    return ev


def run(tier="quick", seed=0):
    pr = PropertyRun("C12", tier, seed)
    thorough = tier == "thorough"
    pr.model_check("MCSpectrum", workers=4)
    ev = events(seed, 200 if thorough else 10, 1000 if thorough else 60)
    pr.validate("TraceSpectrum", ev, name="spectra-calls", chunks=12)
    return pr.finish(
        rule="Spectra(config)(N) for N in {0, 1, 7, many}, indices incl. 1, 1 +- ulp, 0, 4 and random, bounds incl. narrow ranges, "
             "scripted uniforms incl. 0, denormals and the value mapping to u = 1, and the real generator under a recorder; "
             "distinct = distinct events",
        assumptions=["uniform numbers are paired with events only when exactly one draw per event in event order was observed",
                     "backward-error tolerance 1e-9 on CDF(x) = u"],
        trusted=["TLC + Float64 override (StrictMath expm1/log1p)"])


def replay(path):
    import json
    print(json.dumps(json.load(open(path))["violations"][:3], indent=1)[:4000])
    return 1
