"""C08 - optical signal chain: inverse-square, linearity, range cut, effective cone.

spec      : Optical.tla (straight-line distances independent of the code's law-of-sines form); MCOptical lattice for the cone rule
code->spec: the same events through CphotAng(h).run for several detector altitudes, and through EAS(cfg).__call__ with the kernel
            wrapped to log which events reach it; TLC checks ratio law, PE formula, range rule, effective-cone rule per event
"""
import numpy as np

from nssverif import use_repo, par
from nssverif.f64 import bits
from nssverif.kit import PropertyRun
from nssverif.bufs import Reuse

BUF = Reuse()
from nssverif.pipeline import make_config, quiet_progress


def scale_job(job):
    use_repo()
    import warnings
    warnings.simplefilter("ignore")
    from nuspacesim.simulation.eas_optical.cphotang import CphotAng
    rng = np.random.default_rng(job["seed"])
    n = job["n"]
    beta = np.radians(rng.uniform(0.0, 42.0, n))
    beta[:3] = [0.0, np.radians(0.5), np.radians(42.0)]
    alt = rng.uniform(0.0, 20.0, n)
    alt[:3] = [0.0, 20.0, 10.0]
    E = 10.0 ** rng.uniform(-3.0, 2.0, n)
    ref = CphotAng(525.0)
    R = float(ref.RadE)
    ev = []
    refs = [ref.run(beta[i], alt[i], E[i], 0.0, 0.0, None) for i in range(n)]
    for Z in job["alts"]:
        c = CphotAng(Z)
        for i in range(n):
            d, th = c.run(beta[i], alt[i], E[i], 0.0, 0.0, None)
            if float(refs[i][0]) == 0.0 and float(d) == 0.0:
                continue
            ev.append({"kind": "scale", "beta": bits(beta[i]), "alt": bits(alt[i]), "R": bits(R), "Z": bits(Z), "rhoZ": bits(d), "thZ": bits(th),
                       "rhoRef": bits(refs[i][0]), "thRef": bits(refs[i][1]),
                       "_m": {"beta_deg": float(np.degrees(beta[i])), "alt": float(alt[i]), "E": float(E[i]), "Z": Z,
                              "rhoZ": float(d), "rho525": float(refs[i][0])}})
    return ev


def scale_threads_job(job):
    """the distance law with several events in flight on one kernel object: a batch of > 100 events through CphotAng(Z).__call__ under
    the threaded scheduler, each compared with the 525 km reference of ITS OWN event"""
    use_repo()
    import warnings
    warnings.simplefilter("ignore")
    import dask
    from nuspacesim.simulation.eas_optical.cphotang import CphotAng
    quiet_progress()
    rng = np.random.default_rng(job["seed"])
    n = job["n"]
    beta = np.radians(rng.uniform(1.0, 42.0, n))
    alt = rng.uniform(0.0, 18.0, n)
    E = 10.0 ** rng.uniform(-2.0, 2.0, n)
    ref = CphotAng(525.0)
    R = float(ref.RadE)
    refs = [ref.run(beta[i], alt[i], E[i], 0.0, 0.0, None) for i in range(n)]
    ev = []
    Z = job["Z"]
    with dask.config.set(scheduler="threads", num_workers=4):
        d, th = CphotAng(Z)(beta, alt, E, np.zeros(n), np.zeros(n), None)
    for i in range(n):
        if float(refs[i][0]) == 0.0 and float(d[i]) == 0.0:
            continue
        ev.append({"kind": "scale", "beta": bits(beta[i]), "alt": bits(alt[i]), "R": bits(R), "Z": bits(Z), "rhoZ": bits(d[i]), "thZ": bits(th[i]),
                   "rhoRef": bits(refs[i][0]), "thRef": bits(refs[i][1]),
                   "_m": {"beta_deg": float(np.degrees(beta[i])), "alt": float(alt[i]), "E": float(E[i]), "Z": Z, "rhoZ": float(d[i]),
                          "rho525": float(refs[i][0]), "batch": "threads-4"}})
    return ev


def eas_job(job):
    use_repo()
    import warnings
    warnings.simplefilter("ignore")
    import dask
    from nuspacesim.simulation.eas_optical.eas import EAS
    quiet_progress()
    rng = np.random.default_rng(job["seed"])
    n = job["n"]
    ev = []
    for A, QE, thr, Z in job["cfgs"]:
        cfg = make_config({"altitude": Z})
        o = cfg.detector.optical
        o.telescope_effective_area, o.quantum_efficiency, o.photo_electron_threshold = A, QE, thr
        eas = EAS(cfg)
        beta = np.radians(rng.uniform(0.0, 42.0, n))
        alt = rng.uniform(-2.0, 24.0, n)
        alt[:8] = [0.0, 20.0, np.nextafter(20.0, 21), np.nextafter(0.0, -1), -0.0, 19.999999, 1e-300, 25.0]
        E = 10.0 ** rng.uniform(-2.0, 2.5, n)
        lat, lon = rng.uniform(-1.5, 1.5, n), rng.uniform(-3.1, 3.1, n)
        batches = [np.arange(n), np.flatnonzero((alt < 0) | (alt > 20)), np.flatnonzero((alt < 0) | (alt > 20))[:1],
                   np.flatnonzero((alt >= 0) & (alt <= 20))[:1]]
        for sel in batches:
            _eas_batch(eas, ev, beta[sel], alt[sel], E[sel], lat[sel], lon[sel], A, QE, thr, Z, dask)
        _eas_batch(eas, ev, beta, alt, E, lat, lon, A, QE, thr, Z, dask, plot=True)
        # other spellings of the same quantities: whole-kilometre decay altitudes as an INTEGER array (a scan from np.arange), binary32
        # columns, Python lists.  The numbers are the same events; what the stage returns for them must obey the same rules.
        k = min(n, 12)
        alt_int = np.array([0, 1, 5, 10, 19, 20, 21, 25, -1, 3, 7, 15][:k], dtype=np.int64)
        _eas_batch(eas, ev, beta[:k], alt_int, E[:k], lat[:k], lon[:k], A, QE, thr, Z, dask, raw=True)
        _eas_batch(eas, ev, beta[:k].astype(np.float32), alt[:k].astype(np.float32), E[:k].astype(np.float32), lat[:k].astype(np.float32),
                   lon[:k].astype(np.float32), A, QE, thr, Z, dask, raw=True)
    return ev


def _eas_batch(eas, ev, beta, alt, E, lat, lon, A, QE, thr, Z, dask, raw=False, plot=False):
    """raw: hand the arrays to the stage as they are (their dtype is the point) instead of through the float64 argument buffers"""
    n = len(beta)
    if n == 0:
        return
    if True:
        log = []
        orig = eas.CphotAng.run

        def logged(b, a, e, la, lo, cloudf=None, _orig=orig):
            out = _orig(b, a, e, la, lo, cloudf)
            log.append(((float(b), float(a), float(e)), float(out[0]), float(out[1])))
            return out
        eas.CphotAng.run = logged
        try:
            with dask.config.set(scheduler="synchronous"):
                if plot:
                    # every registered plot requested (non-interactive backend): the plot functions get the arrays the caller receives
                    from nssverif import plots as _plots
                    pe, ce = _plots.call(eas, beta.copy(), alt.copy(), E.copy(), lat.copy(), lon.copy(), plot=True)
                elif raw:
                    pe, ce = eas(beta.copy(), alt.copy(), E.copy(), lat.copy(), lon.copy())
                else:
                    pe, ce = eas(BUF("b", beta), BUF("a", alt), BUF("E", E), BUF("la", lat), BUF("lo", lon))
        finally:
            eas.CphotAng.run = orig
        reached = {}
        # kernel calls are matched to events by their arguments, not by call order (the order in which a scheduler runs the partitions
        # is not the event order)
        for key, d, th in log:
            reached.setdefault(key, []).append((d, th))
        for i in range(n):
            r = reached.get((float(beta[i]), float(alt[i]), float(E[i])), [])
            d, th = r.pop(0) if r else (0.0, 1.5)
            ev.append({"kind": "eas", "f32": bool(np.asarray(beta).dtype == np.float32), "alt": bits(alt[i]), "reached": bool(_was(log, (float(beta[i]), float(alt[i]), float(E[i])))),
                       "dphot": bits(d), "thdeg": bits(th), "A": bits(A), "QE": bits(QE), "thr": bits(thr), "numPEs": bits(pe[i]), "cosEff": bits(ce[i]),
                       "_m": {"alt": float(alt[i]), "A": A, "QE": QE, "thr": thr, "Z": Z, "dphot": d, "thdeg": th, "numPEs": float(pe[i]),
                              "cosEff": float(ce[i]), "batch_len": n}})


def geo_job(job):
    """the straight-line helper functions (shower_properties.py, detector_geometry.py) against Optical.Along / Dist"""
    use_repo()
    import warnings
    warnings.simplefilter("ignore")
    from nuspacesim.simulation.eas_optical import shower_properties as sp, detector_geometry as dg
    rng = np.random.default_rng(job["seed"])
    n = job["n"]
    R = 6378.1
    beta = np.radians(rng.uniform(0.01, 89.0, n))
    z = rng.uniform(0.0, 60.0, n)
    z1 = z + rng.uniform(0.001, 40.0, n)
    Z = z1 + 10.0 ** rng.uniform(0.5, 4.5, n)
    s = 10.0 ** rng.uniform(-3.0, 3.0, n)
    beta[:3], z[:3] = [np.radians(0.01), np.radians(42.0), np.radians(89.0)], [0.0, 20.0, 0.0]
    ev = []
    path = sp.path_length_tau_atm(z, beta, R)
    altS = sp.altitude_along_path_length(s, beta, R)
    len01 = dg.length_along_prop_axis(z, z1, beta, R)
    altL = dg.altitude_along_prop_axis(s, z, beta, R)
    gain = dg.gain_in_altitude_along_prop_axis(s, z, beta, R)
    dist = dg.distance_to_detector(beta, z, Z, R)
    prop = sp.propagation_angle(beta, z, R)
    view = dg.viewing_angle(beta, Z, R)
    for i in range(n):
        ev.append({"kind": "geo", "beta": bits(beta[i]), "z": bits(z[i]), "z1": bits(z1[i]), "Z": bits(Z[i]), "R": bits(R), "s": bits(s[i]),
                   "path": bits(path[i]), "altS": bits(altS[i]), "len01": bits(len01[i]), "altL": bits(altL[i]), "gain": bits(gain[i]),
                   "dist": bits(dist[i]), "prop": bits(prop[i]), "view": bits(view[i]),
                   "_m": {"beta_deg": float(np.degrees(beta[i])), "z": float(z[i]), "z1": float(z1[i]), "Z": float(Z[i]), "s": float(s[i]),
                          "dist": float(dist[i])}})
    return ev


def _was(log, key):
    return any(x[0] == key for x in log)


def _dispatch(job):
    return {"scale": scale_job, "scale-threads": scale_threads_job, "eas": eas_job, "geo": geo_job}[job["t"]](job)


def run(tier="quick", seed=0):
    pr = PropertyRun("C08", tier, seed)
    thorough = tier == "thorough"
    pr.model_check("MCOptical", workers=4)
    jobs = []
    for j in range(14 if thorough else 7):
        jobs.append({"t": "scale", "seed": seed * 100 + j, "n": 150 if thorough else 14, "alts": [33.0, 400.0, 2000.0] if j % 2 else [100.0, 36000.0, 525.0]})
    cfgs = [(2.5, 0.2, 10.0, 525.0), (1.0, 1.0, 1.0, 525.0), (10.0, 0.05, 0.01, 33.0), (0.3, 0.9, 1e-6, 2000.0)]
    for j in range(14 if thorough else 7):
        jobs.append({"t": "eas", "seed": seed * 100 + 50 + j, "n": 300 if thorough else 36, "cfgs": [cfgs[j % 4], cfgs[(j + 1) % 4]]})
    jobs.append({"t": "geo", "seed": seed * 100 + 99, "n": 2000 if thorough else 200})
    for Z in ((33.0, 2000.0) if thorough else (33.0,)):
        jobs.append({"t": "scale-threads", "seed": seed * 100 + 98, "n": 230, "Z": Z})
    res = par.pmap(_dispatch, jobs, workers=14)
    ev = [e for r in res for e in r]
    pr.validate("TraceOptical", ev, name="optical-chain", chunks=8)
    k = {}
    for e in ev:
        key = e["kind"] + ("" if e["kind"] in ("scale", "geo") else (":in" if 0.0 <= e["_m"]["alt"] <= 20.0 else ":out"))
        k[key] = k.get(key, 0) + 1
    enh = sum(1 for e in ev if e["kind"] == "eas" and e["_m"]["numPEs"] > 2 * e["_m"]["thr"])
    pr.note(events=k, enhanced_cone_events=enh)
    return pr.finish(
        rule="kernel events (beta in [0, 42 deg], decay altitude in [0, 20] km, E in 1e-3..1e2 x 100 PeV) at detector altitudes "
             "33..36000 km vs the 525 km reference; EAS batches with altitudes in and out of range (incl. +-0, 20 +- ulp), four "
             "(area, efficiency, threshold, altitude) settings, kernel wrapped to log which events reach it; distinct = distinct events",
        assumptions=["ratio-law tolerance 1e-3 (the kernel holds angle and Earth radius in binary32)"],
        trusted=["TLC + Float64 override"])


def replay(path):
    import json
    print(json.dumps(json.load(open(path))["violations"][:3], indent=1)[:4000])
    return 1
