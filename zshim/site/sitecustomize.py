# loaded by child interpreters of the /verif checks (PYTHONPATH): see nsv_zsteps_loader.py
try:
    import os
    if os.environ.get("NSV_ZSTEPS_LIB"):
        import nsv_zsteps_loader
        nsv_zsteps_loader.install()
except Exception:      # never break an interpreter start
    pass
