"""Serve nuspacesim.simulation.eas_optical.zsteps from a shared library that /verif rebuilt from /repo's CURRENT zsteps.cpp
(env NSV_ZSTEPS_LIB), instead of the prebuilt extension module that may be older than the source.  Self-contained (standard library
+ numpy at call time): imported by nssverif and, through sitecustomize on PYTHONPATH, by every child interpreter (dask's process pool
unpickles the kernel object in fresh interpreters that never run the harness)."""
import ctypes
import importlib.abc
import importlib.machinery
import os
import sys
import types

TARGET = "nuspacesim.simulation.eas_optical.zsteps"


def make_function(path):
    lib = ctypes.CDLL(path)
    lib.nsv_zsteps.restype = ctypes.c_long
    dp = ctypes.POINTER(ctypes.c_double)
    lib.nsv_zsteps.argtypes = [ctypes.c_double] * 7 + [ctypes.POINTER(dp)] * 2
    lib.nsv_free.argtypes = [dp]
    lib.nsv_free.restype = None

    def zsteps(z, sinThetView, RadE, zMaxZ, zmax, dL, pi):
        """the double-precision overload (the one pybind11 selects for every argument type nuSpaceSim passes)"""
        import numpy as np
        zs, dz = dp(), dp()
        n = lib.nsv_zsteps(float(z), float(sinThetView), float(RadE), float(zMaxZ), float(zmax), float(dL), float(pi),
                           ctypes.byref(zs), ctypes.byref(dz))
        try:
            a = np.ctypeslib.as_array(zs, (max(n, 1),))[:n].copy()
            b = np.ctypeslib.as_array(dz, (max(n, 1),))[:n].copy()
        finally:
            lib.nsv_free(zs)
            lib.nsv_free(dz)
        return a, b
    return zsteps


class _Finder(importlib.abc.MetaPathFinder, importlib.abc.Loader):
    def __init__(self, path):
        self.path = path

    def find_spec(self, fullname, path=None, target=None):
        if fullname == TARGET:
            return importlib.machinery.ModuleSpec(fullname, self, origin=self.path)
        return None

    def create_module(self, spec):
        m = types.ModuleType(spec.name)
        m.__file__ = self.path
        m.__doc__ = "zsteps rebuilt by /verif from the working tree's zsteps.cpp"
        return m

    def exec_module(self, module):
        module.zsteps = make_function(self.path)
        module.NSV_REBUILT = True


def install(path=None):
    path = path or os.environ.get("NSV_ZSTEPS_LIB")
    if not path or not os.path.exists(path):
        return False
    for f in sys.meta_path:
        if isinstance(f, _Finder):
            f.path = path
            return True
    sys.meta_path.insert(0, _Finder(path))
    return True
