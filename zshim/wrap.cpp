// C entry point around py_zsteps<double> of /repo's zsteps.cpp (included verbatim through -DNSV_ZSTEPS_SRC).
#include NSV_ZSTEPS_SRC
#include <cstdlib>
extern "C" {
// returns the number of steps; *zs and *dz are malloc'ed arrays of that length (free with nsv_free)
long nsv_zsteps(double z, double sinThetView, double RadE, double zMaxZ, double zmax, double dL, double pi, double **zs, double **dz) {
  auto r = py_zsteps<double>(z, sinThetView, RadE, zMaxZ, zmax, dL, pi);
  std::size_t n = r.first.size();
  *zs = static_cast<double *>(std::malloc(sizeof(double) * (n ? n : 1)));
  *dz = static_cast<double *>(std::malloc(sizeof(double) * (n ? n : 1)));
  std::memcpy(*zs, r.first.data(), sizeof(double) * n);
  std::memcpy(*dz, r.second.data(), sizeof(double) * r.second.size());
  return static_cast<long>(n);
}
void nsv_free(double *p) { std::free(p); }
}
