#pragma once
#include "pybind11.h"
