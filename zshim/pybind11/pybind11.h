// Minimal stand-in for the parts of pybind11 that nuSpaceSim's zsteps.cpp uses, so that /verif can rebuild the stepping kernel from
// /repo's CURRENT zsteps.cpp without pybind11 (not installed in the sandbox, nothing can be fetched).  The template function in
// zsteps.cpp is compiled unchanged; only the Python binding layer is replaced by the C entry points of /verif/zshim/wrap.cpp.
#pragma once
#include <cstddef>
#include <cstring>
#include <string>
#include <vector>
namespace pybind11 {
struct buffer_info { void *ptr; std::size_t size; };
template <typename T> class array_t {
  std::vector<T> v_;
public:
  array_t() {}
  explicit array_t(std::size_t n) : v_(n) {}
  buffer_info request() { return buffer_info{ static_cast<void *>(v_.data()), v_.size() }; }
  std::size_t size() const { return v_.size(); }
  const T *data() const { return v_.data(); }
  T *mutable_data() { return v_.data(); }
};
class module_ {
  std::string doc_;
public:
  std::string &doc() { return doc_; }
  template <typename F, typename... Extra> module_ &def(const char *, F &&, const Extra &...) { return *this; }
};
using module = module_;
} // namespace pybind11
#define PYBIND11_MODULE(name, variable) static void nsv_pybind11_init_##name(pybind11::module_ &variable)
