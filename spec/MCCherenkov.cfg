SPECIFICATION Spec
CONSTANT Deep = FALSE
INVARIANT FiniteNonNegative
INVARIANT ClampAndCloud
PROPERTY Terminates
CHECK_DEADLOCK FALSE
