----------------------------- MODULE Acceptance -----------------------------
(***************************************************************************)
(* C03.  The documented acceptance estimators, evaluated from the per-event *)
(* columns of the results table.                                            *)
(*                                                                          *)
(* An event record carries the table columns                                *)
(*   beta (earth-emergence angle, rad)  theta (trajectory-to-line-of-sight  *)
(*   angle, rad in diffuse mode; source nadir angle in target mode)         *)
(*   path (line-of-sight / path length, km)  pexit  lenDec (km)             *)
(* and the channel's trigger quantities  (cosTrV: see below)                *)
(*   trig (numPEs or SNR)  cosEff (cosine of the effective Cherenkov angle) *)
(*   dark (dark-sky condition at the event time; target mode only).         *)
(* A run record carries mode, method, sunMoonCut, thrown (number of THROWN  *)
(* trajectories), H, R (km), mcnorm, thr, specNorm, specWsum.               *)
(***************************************************************************)
EXTENDS Float64, Naturals, Sequences, FiniteSets

Bshr == FDec("0.826")          \* hadronic + electronic branching fraction of the tau

(* ---- diffuse mode ------------------------------------------------------- *)
CosTrN(e) == FSin(e.beta)                                   \* cos(trajectory, local normal)
(* cos(trajectory, line of sight): the value the cone cut compares.  It is carried by the event so that     *)
(* equality cases (detector exactly on the cone) are decided on the same number as in the implementation,   *)
(* and ColumnsConsistent ties it to the stored column.                                                       *)
CosTrV(e) == e.cosTrV
ColumnsConsistent(e, r) == r.mode = "Diffuse" => FClose(e.cosTrV, FCos(e.theta), FDec("1e-12"), FZero)
CosNV(e, r) == FDiv(FSub(FSub(FSq(r.H), FSq(r.R)), FSq(e.path)),
                    FMul(FMul(FTwo, r.R), e.path))           \* cos(normal, line of sight)
DiffWeight(e, r) == FDiv(FDiv(CosTrN(e), CosNV(e, r)), CosTrV(e))

(* the detector lies inside the event's effective Cherenkov cone *)
InCone(e) == FGe(CosTrV(e), e.cosEff)

(* ---- target mode -------------------------------------------------------- *)
TanEff(e) == FTan(FAcos(e.cosEff))
Beyond(e) == FSub(e.path, e.lenDec)                          \* path beyond the decay point
TargetWeight(e) == IF FGt(Beyond(e), FZero)
                   THEN FMul(FPi, FMul(FSq(Beyond(e)), FSq(TanEff(e))))
                   ELSE FZero

(* ---- both ---------------------------------------------------------------- *)
Triggered(e, r) == FGe(e.trig, r.thr)
DarkOk(e, r)    == ~(r.mode = "Target" /\ r.method = "Optical" /\ r.sunMoonCut) \/ e.dark

GeoTerm(e, r) == IF r.mode = "Diffuse"
                 THEN (IF InCone(e) THEN DiffWeight(e, r) ELSE FZero)
                 ELSE TargetWeight(e)

Passes(e, r) == (r.mode = "Diffuse" => InCone(e)) /\ Triggered(e, r) /\ DarkOk(e, r)

FullTerm(e, r) == IF Passes(e, r)
                  THEN FDiv(FDiv(FMul(GeoTerm(e, r), FMul(Bshr, e.pexit)), r.specNorm), r.specWsum)
                  ELSE FZero

Scale(r) == IF r.mode = "Diffuse" THEN FDiv(r.mcnorm, FInt(r.thrown)) ELSE FDiv(FOne, FInt(r.thrown))

SumOver(evs, T(_)) == FSum([i \in 1..Len(evs) |-> T(evs[i])])

IntGeo(evs, r) == FMul(SumOver(evs, LAMBDA e : GeoTerm(e, r)), Scale(r))
Int(evs, r)    == FMul(SumOver(evs, LAMBDA e : FullTerm(e, r)), Scale(r))

Count(evs, P(_)) == Cardinality({i \in 1..Len(evs) : P(evs[i])})
(* passing events; an event that passes every cut but whose weight is exactly zero may or may not be counted *)
NPassHi(evs, r) == Count(evs, LAMBDA e : Passes(e, r))
NPassLo(evs, r) == Count(evs, LAMBDA e : Passes(e, r) /\ ~FEq(FullTerm(e, r), FZero))
=============================================================================
