SPECIFICATION Spec
INVARIANT NeverSmaller
INVARIANT NonDecreasing
INVARIANT MaxNotBinding
INVARIANT JumpAtTwo
CHECK_DEADLOCK FALSE
