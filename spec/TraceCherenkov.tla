--------------------------- MODULE TraceCherenkov ---------------------------
(***************************************************************************)
(* Trace validation of CphotAng.run against Cherenkov.tla (C06; the "in     *)
(* between" cloud regime of C09).  Each event carries the inputs and the    *)
(* kernel outputs:  d32 / a32 from the production (binary32) path, and,     *)
(* when has64, d64 / a64 from the same kernel run in double precision       *)
(* (verification hook).  For every event TLC runs the model's state machine *)
(* to completion (silent steps) and then judges the event.                  *)
(***************************************************************************)
EXTENDS TraceKit, Cherenkov

VARIABLE errs     \* relative density errors of the production path so far (for the median clause)
tvars == <<errs>>

Rel(a, b) == IF FEq(b, FZero) THEN (IF FEq(a, FZero) THEN FZero ELSE FInf) ELSE FDiv(FAbs(FSub(a, b)), FAbs(b))
(* the k-th smallest element of a sequence of doubles *)
Smaller(s, x) == Cardinality({j \in 1..Len(s) : FLt(s[j], x)})
Median(s) == LET n == Len(s)  k == (n + 1) \div 2 IN
             s[CHOOSE j \in 1..n : Smaller(s, s[j]) < k /\ k <= Smaller(s, s[j]) + Cardinality({m \in 1..n : FEq(s[m], s[j])})]

Judge(e) ==
    LET md == out[1]  ma == out[2] IN
    Fails(<< <<"C06 model outputs finite and non-negative", FIsFinite(md) /\ FGe(md, FZero) /\ FIsFinite(ma) /\ FGe(ma, FZero)>>,
             <<"C06 photon density and angle finite and non-negative", FIsFinite(e.d32) /\ FGe(e.d32, FZero) /\ FIsFinite(e.a32) /\ FGe(e.a32, FZero)>>,
             <<"C06 photon density within 10 % or 0.1 photons/m2 of the double-precision model",
               (* e.scale (0 for C06 events) is the cloud-free density of a C09 "in between" event: above ~40 km the binary32 kernel cannot   *)
               (* resolve n - 1 ~ 1e-7, so the residual light above a very high cloud is judged on the scale of the cloud-free signal          *)
               FLe(FAbs(FSub(e.d32, md)), FMax(FMax(FMul(FDec("0.1"), md), FDec("0.1")), FMul(FDec("0.005"), e.scale)))>>,
             (* when the yield is below the underflow scale of binary32 products the production path reports "no light" (0, 0) while the      *)
             (* double-precision model still has a (meaningless) angle of a ~1e-40 signal: the angle is judged only above 1e-25 m^-2         *)
             <<"C06 effective Cherenkov angle within 1 % of the double-precision model",
               FLt(md, FDec("1e-25")) \/ FClose(e.a32, ma, FDec("0.01"), FZero)>>,
             <<"C06 emergence angles below 1 deg are treated as 1 deg (bit-identical to the 1 deg result)",
               ~e.clamped \/ (e.d32 = e.d32ref /\ e.a32 = e.a32ref)>>,
             <<"C06 kernel in double precision = model (logic, 1e-9)",
               ~e.has64 \/ (FClose(e.d64, md, FDec("1e-9"), FDec("1e-300")) /\ (FLt(md, FDec("1e-280")) \/ FClose(e.a64, ma, FDec("1e-9"), FDec("1e-300"))))>> >>)
    \o (IF tkLine = Len(Trace) /\ Len(errs) >= 8 /\ FEq(e.scale, FZero)
        THEN Fails(<< <<"C06 photon density within 0.5 % of the model in the median",
                        FLe(Median(Append(errs, Rel(e.d32, out[1]))), FDec("0.005"))>> >>)
        ELSE <<>>)

Inputs(e) == [beta |-> e.beta, alt |-> e.alt, E100 |-> e.E100, top |-> e.top, zdet |-> e.zdet]

TInit == /\ TKInit /\ errs = <<>>
         /\ ev = [beta |-> FZero, alt |-> FZero, E100 |-> FOne, top |-> FNegInf, zdet |-> Z0]
         /\ geo = GeoOf([beta |-> FZero, alt |-> FZero, E100 |-> FOne, top |-> FNegInf, zdet |-> Z0])
         /\ phase = "idle" /\ z = FZero /\ cumT = FZero /\ cumO = FZero /\ ozPrev = FZero /\ tot = <<FZero, FZero>>
         /\ acc = Acc0 /\ out = <<FZero, FZero>>
TLoad == phase = "idle" /\ tkLine <= Len(Trace) /\ Load(Inputs(Ev)) /\ UNCHANGED <<tkvars, tvars>>
TRun == CNext /\ UNCHANGED <<tkvars, tvars>>
TJudge == /\ phase = "done" /\ TKAdvance
          /\ TKRecord(Judge(Ev))
          (* median over cloud-free events (scale = 0: the C06 domain) with a measurable signal *)
          /\ errs' = IF FGt(out[1], FDec("1")) /\ FEq(Ev.scale, FZero) THEN Append(errs, Rel(Ev.d32, out[1])) ELSE errs
          /\ phase' = "idle" /\ UNCHANGED <<ev, geo, z, cumT, cumO, ozPrev, tot, acc, out>>
TNext == TLoad \/ TRun \/ TJudge
TSpec == TInit /\ [][TNext]_<<tkvars, tvars, cvars>>
CAccepted == TLCGet(1) = <<>>
=============================================================================
