------------------------------- MODULE MCPlots -------------------------------
EXTENDS Plots
MCNames == {"a", "b", "c"}
MCForms == {"none", "str", "callable", "strs", "callables", "mixed"}
=============================================================================
