---------------------------- MODULE MCNuSpaceSim ----------------------------
EXTENDS NuSpaceSim
MCConfigs == [mode : {"Diffuse", "Target"}, optical : BOOLEAN, radio : BOOLEAN,
              writeStages : BOOLEAN, survivors : BOOLEAN, stale : BOOLEAN]
MCFreshConfigs == {c \in MCConfigs : ~c.stale}     \* no file of an earlier run (C14 does not speak about files)
MCLiveConfigs == {c \in MCConfigs : c.writeStages /\ ~c.radio}
(* the (configuration, crash point) pairs the driver realises on the real code: a failure / death at  *)
(* every boundary k of the run, k = NBoundaries + 1 meaning "after the last boundary"                  *)
PlanConfigs == {c \in MCConfigs : c.writeStages /\ c.survivors /\ (c.optical \/ c.radio)}
FaultPlan == {<<c.mode, c.optical, c.radio, k>> : c \in PlanConfigs, k \in 1..18} \cap
             UNION {{<<c.mode, c.optical, c.radio, k>> : k \in 1..NBoundaries(c)} : c \in PlanConfigs}
ASSUME PrintT(<<"FAULTPLAN", FaultPlan>>)
(* the configuration cross product of C14; the driver realises every element (thorough) or a covering subset *)
RunBases == {<<m, s, c, a>> : m \in {"Diffuse", "Target"}, s \in {"mono", "power"}, c \in {"none", "uniform", "map"},
                             a \in {33, 525}}
ASSUME PrintT(<<"RUNBASES", RunBases>>)
(* sanity of the boundary table against DESIGN Appendix B *)
ASSUME NBoundaries([mode |-> "Diffuse", optical |-> TRUE, radio |-> TRUE, writeStages |-> TRUE, survivors |-> TRUE, stale |-> FALSE]) = 15
ASSUME NBoundaries([mode |-> "Target", optical |-> TRUE, radio |-> TRUE, writeStages |-> TRUE, survivors |-> TRUE, stale |-> FALSE]) = 17
ASSUME NBoundaries([mode |-> "Target", optical |-> TRUE, radio |-> TRUE, writeStages |-> TRUE, survivors |-> FALSE, stale |-> TRUE]) = 1
=============================================================================
