---------------------------- MODULE TraceInFlight ----------------------------
(* C06 is a statement about each event alone: photon density and angle agree with the model of THAT event (10 % or 0.1 m^-2; 1 %).   *)
(* Hence two evaluations of the same event by the same kernel object - alone, and while other events are in flight on the object      *)
(* (threaded scheduler) - must agree with each other within twice those tolerances, whatever the model says: a necessary condition    *)
(* that costs TLC a comparison instead of a model run, so that EVERY event of a threaded batch is judged (a sample of them also runs   *)
(* through Cherenkov.tla).   pair {d, a, dseq, aseq}                                                                                   *)
EXTENDS TraceKit, Float64

P2 == FDec("0.2")
Check(e) ==
    Fails(<< <<"C06 photon density of an event with other events in flight on the kernel = its own sequential value (within 2 x tolerance)",
               FLe(FAbs(FSub(e.d, e.dseq)), FMax(FMul(P2, FMax(e.d, e.dseq)), P2))>>,
             <<"C06 Cherenkov angle of an event with other events in flight on the kernel = its own sequential value (within 2 x tolerance)",
               FLe(FAbs(FSub(e.a, e.aseq)), FMul(FDec("0.02"), FMax(e.a, e.aseq)))>> >>)

TInit == TKInit
TNext == TKStep(Check)
TSpec == TInit /\ [][TNext]_tkvars
=============================================================================
