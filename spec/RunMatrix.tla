----------------------------- MODULE RunMatrix -----------------------------
(***************************************************************************)
(* Relational part of C14, as invariants of a product state: the set of     *)
(* completed runs.  A run is                                                *)
(*   [base, seed, sched, optical, radio, cols, dig, meta, metav, rows]      *)
(* base = everything of the configuration except the two channel switches;  *)
(* cols/dig = column names and digest tokens of the returned table;         *)
(* meta/metav = result header keywords and value tokens.                    *)
(*   (R)     same configuration and seed => identical table, whatever the   *)
(*           scheduler                                                      *)
(*   (I-opt) runs that differ only in radio on/off agree on every optical   *)
(*           (non-radio) column and header value                            *)
(*   (I-rad) runs that differ only in optical on/off agree on every radio   *)
(*           (non-optical) column and header value                          *)
(***************************************************************************)
EXTENDS Naturals, Sequences, FiniteSets, SequencesExt

VARIABLE runs
RadioCols   == {"EFields", "tmcintrad"}
OpticalCols == {"numPEs", "costhetaChEff", "tmcintopt"}
RadioKeys   == {"RMCINT", "RMCINTGO", "RNEVPASS", "RMCINTUN"}
OpticalKeys == {"OMCINT", "OMCINTGO", "ONEVPASS", "OMCINTUN"}

ColTok(r, c)  == r.dig[CHOOSE i \in 1..Len(r.cols) : r.cols[i] = c]
MetaTok(r, k) == r.metav[CHOOSE i \in 1..Len(r.meta) : r.meta[i] = k]

SameTable(a, b) == /\ a.cols = b.cols /\ a.dig = b.dig /\ a.rows = b.rows
                   /\ Range(a.meta) = Range(b.meta)
                   /\ \A k \in Range(a.meta) : MetaTok(a, k) = MetaTok(b, k)

(* a and b agree on the channel `own' (its columns / keywords are present in both or in neither) and on everything else they BOTH  *)
(* have outside the other channel `exc'.  A column or keyword that only one of the two runs has and that is not one of the       *)
(* channel's own (say a diagnostic a maintainer lets the radio stage write) is not an optical value that changed.               *)
AgreeExcept(a, b, excCols, excKeys, ownCols, ownKeys) ==
    /\ a.rows = b.rows
    /\ Range(a.cols) \cap ownCols = Range(b.cols) \cap ownCols
    /\ \A c \in (Range(a.cols) \cap Range(b.cols)) \ excCols : ColTok(a, c) = ColTok(b, c)
    /\ Range(a.meta) \cap ownKeys = Range(b.meta) \cap ownKeys
    /\ \A k \in (Range(a.meta) \cap Range(b.meta)) \ excKeys : MetaTok(a, k) = MetaTok(b, k)

SameInput(a, b) == a.base = b.base /\ a.seed = b.seed

Reproducible(a, b) ==
    (SameInput(a, b) /\ a.optical = b.optical /\ a.radio = b.radio) => SameTable(a, b)
OpticalIsolated(a, b) ==
    (SameInput(a, b) /\ a.optical /\ b.optical /\ a.radio # b.radio) => AgreeExcept(a, b, RadioCols, RadioKeys, OpticalCols, OpticalKeys)
RadioIsolated(a, b) ==
    (SameInput(a, b) /\ a.radio /\ b.radio /\ a.optical # b.optical) => AgreeExcept(a, b, OpticalCols, OpticalKeys, RadioCols, RadioKeys)

Init == runs = {}
Record(r) == runs' = runs \cup {r}

InvR    == \A a, b \in runs : Reproducible(a, b)
InvIOpt == \A a, b \in runs : OpticalIsolated(a, b)
InvIRad == \A a, b \in runs : RadioIsolated(a, b)
=============================================================================
