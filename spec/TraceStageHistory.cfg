SPECIFICATION TSpec
CONSTANT Ids <- TraceIds
CONSTANT MaxLen = 3
CONSTANT MaxCalls = 3
POSTCONDITION TKAccepted
CHECK_DEADLOCK FALSE
