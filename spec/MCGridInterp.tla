---------------------------- MODULE MCGridInterp ----------------------------
(***************************************************************************)
(* Exhaustive small-scope check of inverse-by-forward-map (C04, C18): all    *)
(* non-decreasing rows over {0, 1/4, .., 1} of length 5 from 0 to 1 (with    *)
(* plateaus), blends of two such rows, all queries u = k/16 strictly inside.  *)
(***************************************************************************)
EXTENDS GridInterp, TLC

Q(n) == FRat(n, 4)
Rows == { r \in [1..5 -> 0..4] : r[1] = 0 /\ r[5] = 4 /\ \A k \in 1..4 : r[k] <= r[k + 1] }
Zs == <<FRat(1, 16), FRat(1, 8), FRat(1, 4), FRat(1, 2), FOne>>

VARIABLES ra, rb, t, n
Init == ra \in Rows /\ rb \in Rows /\ t \in {0, 1, 2} /\ n = 1
Next == n < 15 /\ n' = n + 1 /\ UNCHANGED <<ra, rb, t>>
Spec == Init /\ [][Next]_<<ra, rb, t, n>>

Blend == [k \in 1..5 |-> Lerp(Q(ra[k]), Q(rb[k]), FRat(t, 2))]
U(m) == FRat(m, 16)
Z(m) == Inverse(Blend, Zs, U(m))

Tol == FDec("1e-15")
ForwardOfInverse == FClose(Forward(LAMBDA k : Blend[k], Zs, Z(n)), U(n), FZero, Tol)
InRange == FLe(Zs[1], Z(n)) /\ FLe(Z(n), Zs[5])
Monotone == n < 15 => FLe(Z(n), Z(n + 1))
BlendIsRow == NonDecreasing(Blend) /\ Blend[1] = FZero /\ Blend[5] = FOne
=============================================================================
