---------------------------- MODULE TraceOptical ----------------------------
(* Trace validation of EAS.__call__ / CphotAng(det_alt).run against Optical.tla (C08).     *)
(*   scale {beta, alt, R, Z, rhoZ, thZ, rhoRef, thRef}   same event, detector at Z vs 525   *)
(*   eas   {alt, reached, dphot, thdeg, A, QE, thr, numPEs, cosEff}   one event of a batch   *)
EXTENDS TraceKit, Optical

Check(e) ==
    CASE e.kind = "scale" ->
        Fails(<< <<"C08 photon density at altitude Z = reference-orbit density x (distance ratio)^2",
                   FClose(e.rhoZ, FMul(e.rhoRef, ScaleFactor(e.alt, e.Z, KernelBeta(e.beta), e.R)), FDec("1e-3"), FDec("1e-30"))>>,
                 <<"C08 the Cherenkov angle does not depend on the detector altitude", e.thZ = e.thRef>> >>)
      [] e.kind = "eas" ->
        IF InRange(e.alt)
        THEN Fails(<< <<"C08 decays inside [0, 20] km are simulated", e.reached>>,
                      <<"C08 photo-electrons = photon density x area x quantum efficiency",
                        FUlps(e.numPEs, PhotoElectrons(e.dphot, e.A, e.QE)) <= 4>>,
                      <<"C08 effective Cherenkov angle rule", FClose(e.cosEff, CosThetaEff(e.thdeg, e.numPEs, e.thr), FDec("1e-12"), FZero)>>,
                      <<"C08 effective angle never smaller than the intrinsic angle",
                        FLe(e.cosEff, FMul(FCos(FRadians(e.thdeg)), FDec("1.000000000001")))>> >>)
        ELSE Fails(<< <<"C08 decays outside [0, 20] km are not simulated", ~e.reached>>,
                      <<"C08 decays outside [0, 20] km give exactly zero photo-electrons", e.numPEs = FZero>>,
                      <<"C08 decays outside [0, 20] km give the default 1.5 deg angle",
                        FUlps(e.cosEff, FCos(FRadians(DefaultAngleDeg))) <= 1>> >>)
      [] OTHER -> <<"unknown event kind">>

TInit == TKInit
TNext == TKStep(Check)
TSpec == TInit /\ [][TNext]_tkvars
=============================================================================
