---------------------------- MODULE TraceOptical ----------------------------
(* Trace validation of EAS.__call__ / CphotAng(det_alt).run against Optical.tla (C08).     *)
(*   scale {beta, alt, R, Z, rhoZ, thZ, rhoRef, thRef}   same event, detector at Z vs 525   *)
(*   eas   {alt, reached, dphot, thdeg, A, QE, thr, numPEs, cosEff}   one event of a batch   *)
(*   geo   {beta, z, z1, Z, R, s, path, altS, len01, altL, gain, dist, prop, view}  geometry helper functions     *)
EXTENDS TraceKit, Optical

Check(e) ==
    CASE e.kind = "scale" ->
        Fails(<< <<"C08 photon density at altitude Z = reference-orbit density x (distance ratio)^2",
                   FClose(e.rhoZ, FMul(e.rhoRef, ScaleFactor(e.alt, e.Z, KernelBeta(e.beta), e.R)), FDec("1e-3"), FDec("1e-30"))>>,
                 <<"C08 the Cherenkov angle does not depend on the detector altitude", e.thZ = e.thRef>> >>)
      [] e.kind = "eas" ->
        IF InRange(e.alt)
        THEN Fails(<< <<"C08 decays inside [0, 20] km are simulated", e.reached>>,
                      (* e.f32: the batch was given in binary32 columns - the stage then works in binary32 *)
                      <<"C08 photo-electrons = photon density x area x quantum efficiency",
                        FUlps(e.numPEs, PhotoElectrons(e.dphot, e.A, e.QE)) <= 4
                        \/ (e.f32 /\ FClose(e.numPEs, PhotoElectrons(e.dphot, e.A, e.QE), FDec("1e-6"), FDec("1e-30")))>>,
                      <<"C08 effective Cherenkov angle rule",
                        FClose(e.cosEff, CosThetaEff(e.thdeg, e.numPEs, e.thr), IF e.f32 THEN FDec("1e-6") ELSE FDec("1e-12"), FZero)>>,
                      <<"C08 effective angle never smaller than the intrinsic angle",
                        FLe(e.cosEff, FMul(FCos(FRadians(e.thdeg)), IF e.f32 THEN FDec("1.000001") ELSE FDec("1.000000000001")))>> >>)
        ELSE Fails(<< <<"C08 decays outside [0, 20] km are not simulated", ~e.reached>>,
                      <<"C08 decays outside [0, 20] km give exactly zero photo-electrons", e.numPEs = FZero>>,
                      <<"C08 decays outside [0, 20] km give the default 1.5 deg angle",
                        FUlps(e.cosEff, FCos(FRadians(DefaultAngleDeg))) <= 1
                        \/ (e.f32 /\ FClose(e.cosEff, FCos(FRadians(DefaultAngleDeg)), FDec("1e-6"), FZero))>> >>)
      [] e.kind = "geo" ->
        (* the straight-line helper functions of shower_properties.py / detector_geometry.py (extended specification) *)
        LET T == FDec("1e-9") IN
        Fails(<< <<"EXT: path_length_tau_atm(z, beta) = distance along the line from the surface to altitude z",
                   FClose(e.path, Along(e.z, e.beta, e.R), T, T)>>,
                 <<"EXT: altitude_along_path_length inverts path_length_tau_atm",
                   FClose(e.altS, AltAt(e.s, e.beta, e.R), T, T)>>,
                 <<"EXT: length_along_prop_axis(z0, z1) = Along(z1) - Along(z0)",
                   FClose(e.len01, Dist(e.z, e.z1, e.beta, e.R), T, T)>>,
                 <<"EXT: altitude_along_prop_axis(L, z0) is the altitude reached L further along the line",
                   FClose(e.altL, AltAt(FAdd(Along(e.z, e.beta, e.R), e.s), e.beta, e.R), T, T)>>,
                 <<"EXT: gain_in_altitude = altitude_along_prop_axis - z0", FClose(e.gain, FSub(e.altL, e.z), T, T)>>,
                 <<"EXT: distance_to_detector (law of sines) = straight-line distance",
                   FClose(e.dist, Dist(e.z, e.Z, e.beta, e.R), FDec("1e-7"), FDec("1e-6"))>>,
                 <<"EXT: propagation_angle = acos(R / (R + z) cos beta)",
                   FClose(e.prop, FAcos(FMul(FDiv(e.R, FAdd(e.R, e.z)), FCos(e.beta))), T, T)>>,
                 <<"EXT: viewing_angle = asin(R / (R + Z) cos beta)",
                   FClose(e.view, FAsin(FMul(FDiv(e.R, FAdd(e.R, e.Z)), FCos(e.beta))), T, T)>> >>)
      [] OTHER -> <<"unknown event kind">>

TInit == TKInit
TNext == TKStep(Check)
TSpec == TInit /\ [][TNext]_tkvars
=============================================================================
