SPECIFICATION Spec
CONSTANT Configs <- MCSmallAll
INVARIANT TypeOK
INVARIANT OkIsIdentity
INVARIANT NeverSilent
INVARIANT PartitionResults
INVARIANT KernelReadOnly
PROPERTY FinalStates
PROPERTY Terminates
