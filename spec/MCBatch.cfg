SPECIFICATION Spec
CONSTANT Configs <- MCSmall
INVARIANT TypeOK
INVARIANT OkIsIdentity
INVARIANT NeverSilent
INVARIANT PartitionResults
INVARIANT KernelReadOnly
PROPERTY FinalStates
PROPERTY Terminates
