SPECIFICATION Spec
INVARIANT RegionSane
INVARIANT CdfEnds
INVARIANT PdfIsDerivative
INVARIANT WeightIdentity
INVARIANT QuantileInverts
CHECK_DEADLOCK FALSE
