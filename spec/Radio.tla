------------------------------- MODULE Radio -------------------------------
(***************************************************************************)
(* C20.  Radio detection chain.                                             *)
(* Frequencies are integers (MHz).  The field parametrisation is tabulated  *)
(* in 10 MHz bins centred on 5, 15, ..., 1645 MHz; the antenna voltage and  *)
(* the noise are evaluated on the bins lo + 5 + 10 k below hi.              *)
(***************************************************************************)
EXTENDS Integers, Sequences, FiniteSets

Centres == {5 + 10 * k : k \in 0..164}
FieldBins(lo, hi)   == {f \in Centres : lo <= f /\ f <= hi}
AntennaBins(lo, hi) == {lo + 5 + 10 * k : k \in {k \in 0..165 : lo + 10 * k < hi}}
Aligned(lo, hi) == lo % 10 = 0 /\ hi % 10 = 0 /\ 0 <= lo /\ lo < hi /\ hi <= 1650

(* the sorted sequence of a finite set of integers *)
SortedSeq(S) == LET n == Cardinality(S)
                    K(i) == CHOOSE x \in S : Cardinality({y \in S : y < x}) = i - 1
                IN [i \in 1..n |-> K(i)]

InRadioRange(alt10) == TRUE   \* placeholder for documentation; the range rule is stated in TraceRadio over doubles
=============================================================================
