-------------------------- MODULE TraceGeomDiffuse --------------------------
(***************************************************************************)
(* Trace validation of RegionGeom against GeomDiffuse.tla (C01, C02).       *)
(*  ev   one thrown trajectory: region c, detector (dlat, dlon), the four   *)
(*       uniforms u, and the public per-event arrays of the implementation  *)
(*  pos  a position reported at distance s along a kept trajectory          *)
(*  quad an equal-weight quadrature of the estimator over a u-lattice       *)
(*       (mcintegral(...)[1]) with the lattice sizes used                   *)
(*  ret  lengths of the __call__ return arrays vs number of kept events     *)
(***************************************************************************)
EXTENDS TraceKit, GeomDiffuse, Sequences, Integers

VARIABLE azc      \* <<series, az + phiS, az - phiS>> of the first event of a series (azimuth convention inferred)

T9 == FDec("1e-9")
Wrap(x) == FMod(x, FMul(FTwo, FPi))
SameAngle(a, b) == LET d == FAbs(FSub(Wrap(a), Wrap(b))) IN FLe(FMin(d, FSub(FMul(FTwo, FPi), d)), FDec("1e-6"))

Dvec(e) == Scale3(e.c.H, Unit(e.dlat, e.dlon))
Shat(e) == Unit(FRadians(e.latS), FRadians(e.lonS))
Svec(e) == Scale3(e.c.R, Shat(e))
LosVec(e) == Sub3(Dvec(e), Svec(e))
CosNVvec(e) == FDiv(Dot3(LosVec(e), Shat(e)), Norm3(LosVec(e)))
CosTrNvec(e) == CosTrN(CosNVvec(e), e.theta, e.phi)
NearBoundary(e) == FLe(FAbs(CosTrNvec(e)), T9) \/ FLe(FAbs(FSub(BetaDeg(CosTrNvec(e)), FInt(42))), FDec("1e-7"))
Az(e) == AzimuthFrom(e.dlat, e.dlon, Shat(e))
AzDefined(e) == FGt(FAbs(FSin(FAcos(FClip(CosThetaS(e.c, e.l), FNeg(FOne), FOne)))), FDec("1e-6")) /\ FLt(FAbs(e.dlat), FDec("1.5"))

CheckEv(e) ==
    LET c == e.c IN
    Fails(<<
      <<"C02 line-of-sight length between the configured minimum and the horizon distance", (* to rounding: the specification and the implementation compute the two ends by different formulas *)
        FLe(FMul(LMin(c), FDec("0.999999999999")), e.l) /\ FLe(e.l, FMul(LMax(c), FDec("1.000000000001")))>>,
      <<"C01/C02 line-of-sight length is the inverse-CDF image of u4", FClose(CdfL(c, e.l), e.u[4], FZero, T9)>>,
      <<"C01 view angle is the inverse-CDF image of u1 (sin^2 uniform)", FClose(CdfTheta(c, e.theta), e.u[1], FZero, T9)>>,
      <<"C01 trajectory azimuth is the inverse-CDF image of u2", FClose(CdfPhi(e.phi), e.u[2], FZero, T9)>>,
      <<"C01 spot azimuth is the inverse-CDF image of u3", FClose(CdfPhiS(c, e.phiS), e.u[3], FZero, T9)>>,
      <<"C01 normalisation = closed form from the sampling densities", FClose(e.mcnorm, McNorm(c), FDec("1e-11"), FZero)>>,
      <<"C01 weight x mcnorm x pdf = integrand x measure density (Jacobian identity)",
        FClose(FMul(FMul(Weight(e.cosTrN, e.cosNV, e.theta), e.mcnorm), Pdf(c, e.l, e.theta)),
               FMul(e.cosTrN, MeasureDensity(c, e.l, e.theta)), FDec("1e-8"), FDec("1e-12"))>>,
      <<"C01 reported cosines: cos(normal, line of sight) and cos(trajectory, line of sight)",
        FClose(e.cosNV, CosNV(c, e.l), FDec("1e-8"), FDec("1e-12")) /\ FClose(e.cosTrV, FCos(e.theta), FDec("1e-12"), FZero)>>,
      <<"C02 spot latitude in [-90, 90] and longitude in [0, 360] degrees",
        FLe(FInt(-90), e.latS) /\ FLe(e.latS, FInt(90)) /\ FLe(FZero, e.lonS) /\ FLe(e.lonS, FInt(360))>>,
      <<"C02 ground spot on the Earth's surface at exactly the line-of-sight length from the detector (explicit vectors)",
        FClose(Norm3(LosVec(e)), e.l, FDec("1e-8"), FDec("1e-6"))>>,
      <<"C02 Earth-central angle between detector nadir and spot", FClose(Dot3(Unit(e.dlat, e.dlon), Shat(e)), CosThetaS(c, e.l), FZero, FDec("1e-10"))>>,
      <<"C01/C02 cos(trajectory, local normal) from explicit vectors", FClose(e.cosTrN, CosTrNvec(e), FZero, FDec("1e-7"))>>,
      <<"C02 emergence angle = 90 deg - angle between trajectory and local vertical (explicit vectors)",
        FClose(e.betaDeg, BetaDeg(CosTrNvec(e)), FZero, FDec("1e-5"))>>,
      <<"C01/C02 kept exactly when upward-going with emergence angle below 42 deg", NearBoundary(e) \/ (e.mask <=> Kept(CosTrNvec(e)))>>,
      <<"C01/C02 spot azimuth about the detector nadir is phiS (one fixed convention for all events)",
        ~(azc # <<>> /\ azc[1] = e.ser /\ AzDefined(e)) \/ SameAngle(FAdd(Az(e), e.phiS), azc[2]) \/ SameAngle(FSub(Az(e), e.phiS), azc[3])>>
    >>)

CheckPos(e) ==
    LET sh == Unit(FRadians(e.latS), FRadians(e.lonS))  ph == Unit(e.lat, e.lon) IN
    Fails(<< <<"C02 position at distance s along a kept trajectory: ground offset implied by the emergence angle",
               FClose(Angle3(sh, ph), GroundOffset(e.s, e.beta, e.R), FDec("1e-7"), FDec("1e-10"))>> >>)

(* Independent physical parametrisation: midpoint rule over (Earth-central angle, theta); the integral over the       *)
(* trajectory azimuth phi is done in closed form.  With cos(trajectory, normal) = A - B cos(phi), A = cos(theta) cosNV,   *)
(* B = sin(theta) sinNV >= 0, the kept directions are 0 <= A - B cos(phi) < sin(42 deg), i.e. an interval of cos(phi);    *)
(* the integrand is then continuous in the two remaining coordinates.                                                       *)
Sin42 == FSin(FRadians(FInt(42)))
PhiIntegral(A, Bq) ==
    IF FLe(Bq, FDec("1e-300"))
      THEN (IF FGe(A, FZero) /\ FLt(A, Sin42) THEN FMul(FMul(FTwo, FPi), A) ELSE FZero)
      ELSE LET chi == FClip(FDiv(A, Bq), FNeg(FOne), FOne)
               clo == FClip(FDiv(FSub(A, Sin42), Bq), FNeg(FOne), FOne)
               p1 == FAcos(chi)  p2 == FAcos(clo)
           IN FMul(FTwo, FSub(FMul(A, FSub(p2, p1)), FMul(Bq, FSub(FSin(p2), FSin(p1)))))
(* Outer coordinate: the angle nu between the local normal at the spot and the line of sight (90 deg at the horizon).   *)
(* A uniform grid in nu resolves the kinks of the phi-integral, whose width is the cone angle.  Geometry of the triangle *)
(* (Earth centre, spot, detector): Earth-central angle thetaS = nu - asin((R/H) sin nu).                                  *)
ThetaSOfNu(c, nu) == FSub(nu, FAsin(FMul(FDiv(c.R, c.H), FSin(nu))))
DThetaSDNu(c, nu) == LET q == FDiv(c.R, c.H) IN
                     FSub(FOne, FDiv(FMul(q, FCos(nu)), FSqrt(FSub(FOne, FSq(FMul(q, FSin(nu)))))))
Aperture(c, nNu, nTh) ==
    LET nu0 == FAcos(FClip(CosNV(c, LMin(c)), FNeg(FOne), FOne))
        dnu == FDiv(FSub(FHalfPi, nu0), FInt(nNu))  dth == FDiv(c.thetaMax, FInt(nTh))
        Mid(a, d, i) == FAdd(a, FMul(d, FSub(FInt(i), FDec("0.5"))))
        Inner(nu) == FSum([b \in 1..nTh |-> LET th == Mid(FZero, dth, b) IN
                              FMul(FSin(th), PhiIntegral(FMul(FCos(th), FCos(nu)), FMul(FSin(th), FSin(nu))))])
    IN FMul(FMul(FMul(c.dPhi, FSq(c.R)), FMul(dnu, dth)),
            FSum([a \in 1..nNu |-> LET nu == Mid(nu0, dnu, a) IN
                     FMul(FMul(FSin(ThetaSOfNu(c, nu)), DThetaSDNu(c, nu)), Inner(nu))]))

Check(e) ==
    CASE e.kind = "ev" -> CheckEv(e)
      [] e.kind = "pos" -> CheckPos(e)
      [] e.kind = "quad" ->
           Fails(<< <<"C01 equal-weight quadrature of the estimator = independently computed aperture (0.4 %)",
                      FClose(e.est, Aperture(e.c, e.nNu, e.nTh), FDec("4e-3"), FZero)>> >>)
      [] e.kind = "ret" -> Fails(<< <<"C02 __call__ returns one entry per kept trajectory", e.nkept = e.nret>> >>)
      [] OTHER -> <<"unknown event kind">>

TInit == TKInit /\ azc = <<>>
TNext == /\ TKAdvance
         /\ azc' = IF Ev.kind = "ev" /\ (azc = <<>> \/ azc[1] # Ev.ser) /\ AzDefined(Ev)
                   THEN <<Ev.ser, Wrap(FAdd(Az(Ev), Ev.phiS)), Wrap(FSub(Az(Ev), Ev.phiS))>> ELSE azc
         /\ TKRecord(Check(Ev))
TSpec == TInit /\ [][TNext]_<<tkvars, azc>>
=============================================================================
