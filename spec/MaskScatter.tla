----------------------------- MODULE MaskScatter -----------------------------
(***************************************************************************)
(* C11, mechanism level: what the vectorised stages actually do.            *)
(*   classify every position into a class (valid / low / high / ...),       *)
(*   evaluate each class on the COMPRESSED sub-array of its positions,      *)
(*   scatter the results back through the same mask,                        *)
(*   and iterate over the batch in buffer chunks of size B.                 *)
(* State machine over chunks; TLC checks for every input array, every       *)
(* classification and every B that the result is position-wise              *)
(* (out[j] = G(class(in[j]), in[j], u[j])) and hence independent of B.      *)
(* Variants named Bug* model the defects this pattern is prone to; they     *)
(* must violate PositionWise (non-vacuity).                                 *)
(***************************************************************************)
EXTENDS Naturals, Sequences, FiniteSets, TLC

CONSTANTS N,          \* batch length
          Vals,       \* input values
          Bufs,       \* buffer sizes explored
          Variant     \* "ok" | "BugUncompressedU" | "BugWrongMask"

Classes == {"valid", "low", "high"}
Class(v) == IF v < 2 THEN "low" ELSE IF v > 3 THEN "high" ELSE "valid"
(* per-class kernel: depends on the position's own value and random number only *)
G(c, v, u) == CASE c = "valid" -> 100 * v + u [] c = "low" -> 50 + u [] c = "high" -> 7

VARIABLES in, u, B, pos, out
vars == <<in, u, B, pos, out>>

Init == /\ in \in [1..N -> Vals]
        /\ u = [j \in 1..N |-> 10 - j]           \* distinct per position
        /\ B \in Bufs
        /\ pos = 0
        /\ out = [j \in 1..N |-> 0]

Positions(lo, hi, c) == {j \in lo..hi : Class(in[j]) = c}
(* the k-th smallest element of a finite set of naturals *)
Kth(S, k) == CHOOSE x \in S : Cardinality({y \in S : y < x}) = k - 1
Rank(S, x) == Cardinality({y \in S : y < x}) + 1

(* evaluate class c on the chunk lo..hi: compress, compute, scatter *)
ChunkClass(lo, hi, c, acc) ==
    LET S == Positions(lo, hi, c)
        n == Cardinality(S)
        (* compressed inputs *)
        cv == [k \in 1..n |-> in[Kth(S, k)]]
        (* random numbers for the compressed array: correct = compressed through the same mask *)
        cu == [k \in 1..n |->
                 IF Variant = "BugUncompressedU" THEN u[lo + k - 1]       \* first n of the chunk, not the masked ones
                 ELSE u[Kth(S, k)]]
        r  == [k \in 1..n |-> G(c, cv[k], cu[k])]
        (* scatter *)
        T  == IF Variant = "BugWrongMask" /\ c = "low" THEN Positions(lo, hi, "valid") ELSE S
    IN [j \in 1..N |-> IF j \in T /\ Rank(T, j) <= n THEN r[Rank(T, j)] ELSE acc[j]]

Step == /\ pos < N
        /\ LET lo == pos + 1
               hi == IF pos + B > N THEN N ELSE pos + B
               a1 == ChunkClass(lo, hi, "valid", out)
               a2 == ChunkClass(lo, hi, "low", a1)
               a3 == ChunkClass(lo, hi, "high", a2)
           IN out' = a3 /\ pos' = hi
        /\ UNCHANGED <<in, u, B>>

Spec == Init /\ [][Step]_vars

PositionWise == pos = N => \A j \in 1..N : out[j] = G(Class(in[j]), in[j], u[j])
Prefix == \A j \in 1..pos : out[j] = G(Class(in[j]), in[j], u[j])
=============================================================================
