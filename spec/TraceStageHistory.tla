-------------------------- MODULE TraceStageHistory --------------------------
(* Trace validation of call histories on ONE stage object against            *)
(* StageHistory.tla.  Events: Stage{name} (a fresh object, memo reset),       *)
(* Call{ids, outs, intact}: ids = pool indices of the events at each          *)
(* position, outs = tokens of the bitwise digests of the per-position outputs *)
(* intact = the arrays passed in are unchanged after the call.                *)
EXTENDS TraceKit, StageHistory

TraceIds == 1..128

Check(e) ==
    CASE e.kind = "Stage" -> <<>>
      [] e.kind = "Call" ->
           Fails(<< <<"C11 no stage modifies the arrays it is given", e.intact>>,
                    <<"C11 one output per input position", Len(e.outs) = Len(e.ids)>>,
                    <<"C11 the output at a position depends only on the event at that position (permutation / split / repeat)",
                      Len(e.outs) # Len(e.ids) \/ CallGuard(e.ids, e.outs, TRUE)>> >>)
      [] OTHER -> <<"unknown event kind">>

Effect(e) ==
    CASE e.kind = "Stage" -> memo' = [i \in Ids |-> Unknown] /\ hist' = <<>>
      [] e.kind = "Call" -> IF Len(e.outs) = Len(e.ids)
                              THEN memo' = NewMemo(e.ids, e.outs) /\ hist' = <<>>
                              ELSE UNCHANGED vars
      [] OTHER -> UNCHANGED vars

TInit == TKInit /\ Init
TNext == TKAdvance /\ Effect(Ev) /\ TKRecord(Check(Ev))
TSpec == TInit /\ [][TNext]_<<tkvars, vars>>
=============================================================================
