-------------------------------- MODULE Plots --------------------------------
(***************************************************************************)
(* Plot dispatch of a decorated simulation stage (utils/decorators.py,      *)
(* nss_result_plot) - beyond the listed properties.  A stage is decorated   *)
(* with a sequence of registered plot functions; the caller's `plot`        *)
(* argument selects which of them run after the stage, with the stage's     *)
(* inputs and outputs, and the stage's return value is never altered.       *)
(*                                                                          *)
(* plot argument forms:                                                     *)
(*   none                      nothing is plotted                           *)
(*   str       names = <<n>>   the registered functions called n            *)
(*   callable  names = <<c>>   the caller's function c                      *)
(*   strs      names = seq     registered functions whose name is listed,   *)
(*                             in REGISTRATION order, each at most once     *)
(*   callables names = seq     the caller's functions in LIST order         *)
(*   mixed                     neither all names nor all callables: nothing *)
(***************************************************************************)
EXTENDS Naturals, Sequences, FiniteSets

Range(s) == {s[i] : i \in DOMAIN s}
Filter(s, Keep(_)) == LET F[i \in 0..Len(s)] == IF i = 0 THEN <<>> ELSE IF Keep(s[i]) THEN Append(F[i - 1], s[i]) ELSE F[i - 1] IN F[Len(s)]

Calls(registered, form, names) ==
    CASE form = "none"      -> <<>>
      [] form = "str"       -> Filter(registered, LAMBDA f : f = names[1])
      [] form = "callable"  -> <<names[1]>>
      [] form = "strs"      -> Filter(registered, LAMBDA f : f \in Range(names))
      [] form = "callables" -> names
      [] form = "mixed"     -> <<>>

CONSTANTS Names, Forms
VARIABLES registered, form, names, phase, called, value
vars == <<registered, form, names, phase, called, value>>

SeqsUpTo(S, n) == UNION {[1..k -> S] : k \in 0..n}
NoDup(s) == \A i, j \in DOMAIN s : i # j => s[i] # s[j]

Init == /\ registered \in {s \in SeqsUpTo(Names, 3) : NoDup(s)}
        /\ form \in Forms
        /\ names \in IF form \in {"str", "callable"} THEN [1..1 -> Names]
                     ELSE IF form \in {"strs", "callables"} THEN SeqsUpTo(Names, 3) ELSE {<<>>}
        /\ phase = "call" /\ called = <<>> /\ value = 0
Stage == phase = "call" /\ phase' = "dispatch" /\ value' = 1 /\ UNCHANGED <<registered, form, names, called>>
Dispatch == /\ phase = "dispatch" /\ phase' = "done"
            /\ called' = Calls(registered, form, names)
            /\ UNCHANGED <<registered, form, names, value>>
Next == Stage \/ Dispatch
Spec == Init /\ [][Next]_vars /\ WF_vars(Next)

OnlyRegisteredByName == phase = "done" /\ form \in {"str", "strs"} => Range(called) \subseteq Range(registered) \cap Range(names)
EveryNamedRegisteredRuns == phase = "done" /\ form \in {"str", "strs"} => Range(registered) \cap Range(names) \subseteq Range(called)
AtMostOncePerName == phase = "done" /\ form \in {"str", "strs"} => NoDup(called)
NothingWithoutRequest == phase = "done" /\ form \in {"none", "mixed"} => called = <<>>
ValueUntouched == phase = "done" => value = 1
Terminates == <>(phase = "done")
=============================================================================
