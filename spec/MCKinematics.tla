---------------------------- MODULE MCKinematics ----------------------------
(* Lattice check of Kinematics.tla (C07): energies from 3 TeV to 10^12 GeV,   *)
(* beta in [0, 42 deg], u in (0, 1] incl. 1 and 5e-324, shower fractions.      *)
EXTENDS Kinematics, TLC, Sequences
Es == {FDec("3e3"), FDec("1.778e3"), FDec("1e6"), FDec("3.7e8"), FDec("1e12")}
Betas == <<FZero, FDec("0.0017"), FDec("0.3"), FDec("0.7330382858376184")>>
Us == <<FDec("5e-324"), FDec("1e-300"), FDec("1e-9"), FDec("0.1"), FDec("0.5"), FNextDown(FOne), FOne>>
Fs == {FDec("1e-3"), FDec("0.5"), FOne}
R == FDec("6378.1")
VARIABLES E, bi, ui, f
Init == E \in Es /\ bi \in 1..Len(Betas) /\ ui \in 1..Len(Us) /\ f \in Fs
Next == UNCHANGED <<E, bi, ui, f>>
Spec == Init /\ [][Next]_<<E, bi, ui, f>>
g == Gamma(E)
bt == BetaTau(g)
L(k) == DecayLen(g, bt, Us[k])
Alt(k, b) == Altitude(L(k), Betas[b], R)
GammaAtLeastOne == FGe(g, FOne)
SpeedInUnitInterval == FGt(bt, FZero) /\ FLe(bt, FOne)
ShowerEnergyScales == FClose(FMul(ShowerE(E, f), FDec("1e8")), FMul(f, E), FDec("1e-15"), FZero)
LengthNonNegative == FGe(L(ui), FZero) /\ FIsFinite(L(ui))
LengthDecreasingInU == ui < Len(Us) => FGe(L(ui), L(ui + 1))
LengthZeroAtOne == FEq(L(Len(Us)), FZero)
AltitudeNonNegative == FGe(Alt(ui, bi), FDec("-1e-9"))
AltitudeIncreasingInLength == ui < Len(Us) => FGe(Alt(ui, bi), FSub(Alt(ui + 1, bi), FDec("1e-9")))
AltitudeIncreasingInAngle == bi < Len(Betas) => FGe(Alt(ui, bi + 1), FSub(Alt(ui, bi), FDec("1e-9")))
ExponentialLaw == FClose(Survival(L(ui), g, bt), Us[ui], FDec("1e-12"), FDec("1e-300"))
=============================================================================
