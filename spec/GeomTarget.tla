----------------------------- MODULE GeomTarget -----------------------------
(***************************************************************************)
(* C13.  Target-of-opportunity geometry and the dark-sky cut.               *)
(* The celestial environment (source altitude, Sun and Moon altitude, Moon  *)
(* phase angle at a given instant and place) is an INPUT of this module.    *)
(***************************************************************************)
EXTENDS Float64, Naturals

Deg42 == FRadians(FInt(42))

(* instants: N equally spaced times covering [t0, t0 + T): offset of the k-th (k = 0 .. N-1), seconds *)
Offset(k, N, T) == FDiv(FMul(FInt(k), T), FInt(N))

(* nadir angle of the horizon seen from the detector, H = R + altitude *)
AlphaHorizon(H, R) == FAsin(FDiv(R, H))
(* nadir angle of the source direction from its altitude above the local horizontal *)
Nadir(alt) == FAdd(FHalfPi, alt)
(* the source direction is occulted by the Earth as seen from the detector *)
Occulted(alt, H, R) == FLt(Nadir(alt), AlphaHorizon(H, R))
(* Earth-emergence angle of the line from the ground spot to the detector *)
Beta(alpha, H, R) == FAcos(FMul(FDiv(H, R), FSin(alpha)))
BetaLimit(H, R, limb) == FMin(Deg42, Beta(FSub(AlphaHorizon(H, R), limb), H, R))
Kept(alt, H, R, limb) == Occulted(alt, H, R) /\ FLt(Beta(Nadir(alt), H, R), BetaLimit(H, R, limb))
(* distance from the detector to the ground spot *)
PathLen(alpha, beta, H) == FDiv(FMul(H, FCos(FAdd(alpha, beta))), FCos(beta))

(* Earth-centre / detector / ground-spot triangle from explicit 2-D coordinates:                          *)
(* detector D = (0, H); unit vector along the line of sight v = (sin a, -cos a); spot S = D + L v          *)
SpotX(a, L, H) == FMul(L, FSin(a))
SpotY(a, L, H) == FSub(H, FMul(L, FCos(a)))
SpotRadius(a, L, H) == FHypot(SpotX(a, L, H), SpotY(a, L, H))
(* sine of the emergence angle = (unit normal at S) . (unit vector from S to D) *)
SinEmergence(a, L, H) ==
    FDiv(FAdd(FMul(SpotX(a, L, H), FNeg(FSin(a))), FMul(SpotY(a, L, H), FCos(a))), SpotRadius(a, L, H))

(* dark sky: Sun below its limit and (Moon below its limit or Moon phase angle above the minimum) *)
Dark(sunAlt, moonAlt, phase, sunCut, moonCut, minPhase) ==
    FLt(sunAlt, sunCut) /\ (FLt(moonAlt, moonCut) \/ FGt(phase, minPhase))
(* Moon phase angle from Sun / Moon distances and elongation *)
PhaseAngle(dSun, dMoon, elong) == FAtan2(FMul(dSun, FSin(elong)), FSub(dMoon, FMul(dSun, FCos(elong))))
=============================================================================
