---------------------------- MODULE MCResultsFile ----------------------------
(* Small-scope model of the reconstruction invariant: an abstract reconstructor that copies field "a", leaves "b" at its       *)
(* default and (Buggy) fills "c" from the card of "a".  TLC shows ReconAgrees holds for the faithful reconstructor and fails     *)
(* for the buggy one (non-vacuity), and that a defaulted field is never judged.                                                 *)
EXTENDS ResultsFile, TLC
CONSTANT Buggy
Vals == {1, 2}
Cfgs == [a : Vals, b : Vals, c : Vals]
V(x) == <<"s", x>>
ReconOf(c) == [a |-> V(c.a), b |-> V(1), c |-> V(IF Buggy THEN c.a ELSE c.c)]
CfgOf(c) == [a |-> V(c.a), b |-> V(c.b), c |-> V(c.c)]
Next == \E c \in Cfgs : Record([cfg |-> CfgOf(c), recon |-> ReconOf(c)])
Spec == Init /\ [][Next]_runs
DefaultNotJudged == ~Reconstructed("b")
=============================================================================
