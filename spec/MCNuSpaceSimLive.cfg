SPECIFICATION Spec
CONSTANT Configs <- MCLiveConfigs
PROPERTY Terminates
PROPERTY FileOnlyGrows
