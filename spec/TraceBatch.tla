----------------------------- MODULE TraceBatch -----------------------------
(***************************************************************************)
(* Trace validation of executions of the shower batch against Batch.tla.    *)
(* One trace file may hold several executions; each starts with Begin.      *)
(* Events (recorded by the order-controlled scheduler or by the tracing     *)
(* callback under dask's own schedulers):                                   *)
(*   Begin{N,Lens,W,Fail}     Start{p}  Finish{p,ids}  Fail{p}  Errored     *)
(*   Return{ids}  Raised  Kernel{same}  End                                 *)
(* ids are event ids obtained by matching each result, bit for bit, with    *)
(* the one-at-a-time evaluation of the same events (0 = matches nothing).   *)
(***************************************************************************)
EXTENDS TraceKit, Batch, SequencesExt

NoConfigs == {}
Idle == [N |-> 0, Lens |-> <<>>, W |-> 1, Fail |-> {}]

FailingPart == {p \in Parts(cfg) : FailGuard(p)}

Check(e) ==
    CASE e.kind = "Begin" -> <<>>
      [] e.kind = "Start" -> Fails(<< <<"Start: partition pending, worker free, no error yet", StartGuard(e.p)>> >>)
      [] e.kind = "Finish" ->
            Fails(<< <<"Finish: partition was running and holds no failing event", FinishGuard(e.p)>>,
                     <<"Finish: partition result = its own events evaluated one at a time, in order",
                       e.p \in Parts(cfg) /\ e.ids = PartSeq(cfg, e.p)>> >>)
      [] e.kind = "Fail" -> Fails(<< <<"Fail: only the partition holding the failing event fails", FailGuard(e.p)>> >>)
      [] e.kind = "Errored" -> Fails(<< <<"Errored: some running partition holds the failing event", FailingPart # {}>> >>)
      [] e.kind = "Return" ->
            IF cfg.N = 0
              THEN Fails(<< <<"Return: empty batch returns an empty result", EmptyGuard /\ e.ids = <<>> >> >>)
              ELSE Fails(<< <<"Return: all partitions done, no error", FinalizeGuard>>,
                            <<"Return: result = partition results concatenated in partition order",
                              e.ids = Concat(res, NParts(cfg))>>,
                            <<"Return: OkIsIdentity (input order, nothing missing/duplicated/shifted)",
                              e.ids = Iota(cfg.N)>>,
                            <<"Return: NeverSilent (a failing event must raise)", cfg.Fail = {}>> >>)
      [] e.kind = "Raised" ->
            Fails(<< <<"Raised: only after a partition failed", outcome.tag = "Err">>,
                     <<"Raised: no error without a failing event", cfg.Fail # {}>> >>)
      [] e.kind = "Kernel" -> <<>>   \* informational: a result-neutral cache on the kernel object is allowed by C10
      [] e.kind = "End" -> Fails(<< <<"Terminates: the call returned or raised", outcome.tag # "None" \/ e.raised>> >>)
      [] OTHER -> <<"unknown event kind">>

Effect(e) ==
    CASE e.kind = "Begin" ->
            LET c == [N |-> e.N, Lens |-> e.Lens, W |-> e.W, Fail |-> Range(e.Fail)] IN
            /\ cfg' = c
            /\ st' = [p \in Parts(c) |-> "pending"]
            /\ res' = [p \in Parts(c) |-> <<>>]
            /\ outcome' = [tag |-> "None"]
            /\ kernel' = 0
      [] e.kind = "Start" -> IF e.p \in Parts(cfg) THEN StartEffect(e.p) ELSE UNCHANGED vars
      [] e.kind = "Finish" -> IF e.p \in Parts(cfg) THEN FinishEffect(e.p, e.ids) ELSE UNCHANGED vars
      [] e.kind = "Fail" -> IF e.p \in Parts(cfg) THEN FailEffect(e.p)
                            ELSE outcome' = [tag |-> "Err"] /\ UNCHANGED <<cfg, st, res, kernel>>
      [] e.kind = "Errored" -> IF FailingPart # {} THEN FailEffect(CHOOSE p \in FailingPart : TRUE)
                               ELSE outcome' = [tag |-> "Err"] /\ UNCHANGED <<cfg, st, res, kernel>>
      [] e.kind = "Return" -> FinalizeEffect(e.ids)
      [] e.kind = "Kernel" -> kernel' = (IF e.same THEN kernel ELSE kernel + 1) /\ UNCHANGED <<cfg, st, res, outcome>>
      [] OTHER -> UNCHANGED vars

(* the invariants of Batch.tla, evaluated in the state after every event *)
Post == Fails(<< <<"inv TypeOK", TypeOK'>>,
                 <<"inv OkIsIdentity", OkIsIdentity'>>,
                 <<"inv NeverSilent", NeverSilent'>>,
                 <<"inv PartitionResults", PartitionResults'>> >>)

TInit == /\ TKInit
         /\ cfg = Idle /\ st = <<>> /\ res = <<>> /\ outcome = [tag |-> "None"] /\ kernel = 0
TNext == TKAdvance /\ Effect(Ev) /\ TKRecord(Check(Ev) \o Post)
TSpec == TInit /\ [][TNext]_<<tkvars, vars>>
=============================================================================
