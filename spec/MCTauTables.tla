---------------------------- MODULE MCTauTables ----------------------------
(* Soundness of one shipped table version (C18) and lattice checks of the exit       *)
(* probability (C05): all nodes, cell centres.  One state per (i, j) node.            *)
EXTENDS TauTables, TLC
VARIABLES i, j
Init == i = 1 /\ j = 1
Next == \/ j < Len(PB) /\ j' = j + 1 /\ i' = i
        \/ j = Len(PB) /\ i < Len(PE) /\ i' = i + 1 /\ j' = 1
Spec == Init /\ [][Next]_<<i, j>>

Mid(ax, k) == IF k < Len(ax) THEN FMul(FAdd(ax[k], ax[k + 1]), FDec("0.5")) ELSE ax[k]
(* C05: the interpolant reproduces the (floored) table at its nodes *)
NodeExact == FClose(Pexit(PE[i], PB[j]), Floored(i, j), FDec("1e-13"), FZero)
(* C05: between the smallest and largest of the four surrounding nodes, and in (0, 1] *)
CellBounded == LET e == Mid(PE, i)  b == Mid(PB, j)  p == Pexit(e, b) IN
               /\ FLe(FMul(PexitLo(e, b), FDec("0.999999999999")), p)
               /\ FLe(p, FMul(PexitHi(e, b), FDec("1.000000000001")))
               /\ FGt(p, FZero) /\ FLe(p, FOne)
ClampRules == /\ Pexit(PE[i], FMul(BetaMinP, FDec("0.5"))) = Pexit(PE[i], BetaMinP)
              /\ Pexit(PE[i], FMul(BetaMaxP, FDec("1.5"))) = Eps32
ASSUME AxesSound
ASSUME RowsSound
ASSUME PexitSound
ASSUME TauAboveMass
=============================================================================
