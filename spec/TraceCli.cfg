SPECIFICATION TSpec
CONSTANT Options = {}
CONSTANT FileThrown = 23
POSTCONDITION TKAccepted
CHECK_DEADLOCK FALSE
