SPECIFICATION Spec
POSTCONDITION TKAccepted
CHECK_DEADLOCK FALSE
