----------------------------- MODULE BatchProof -----------------------------
(***************************************************************************)
(* The dask bag of Batch.tla for ANY number of events, ANY consecutive      *)
(* segmentation and ANY number of workers, in a form the TLA+ proof system  *)
(* can handle: the segmentation is a constant monotone offset function      *)
(* (Off[p-1] < i <= Off[p] are the events of partition p) and the gather    *)
(* task is a loop that appends one partition result per step (toolz.concat  *)
(* consumes the partition results in partition-index order), so the         *)
(* recursion of Batch!Concat becomes the loop invariant                     *)
(*     g = <<1, ..., Off[gp - 1]>>.                                         *)
(* TLC checks the same module on small constants (MCBatchProof) and checks  *)
(* that the loop computes Batch!Concat; tlapm proves Spec => []Safe, i.e.   *)
(* C10's "in input order, nothing missing, duplicated or shifted" and       *)
(* "a failing event is never silent", without a bound on N.                 *)
(***************************************************************************)
EXTENDS Naturals, Sequences, TLAPS

CONSTANTS N,        \* number of events
          NP,       \* number of partitions
          Off,      \* Off[p] = number of events in partitions 1..p
          W,        \* worker capacity
          FailP     \* set of partitions containing an event whose evaluation raises

ASSUME Consts == /\ N \in Nat /\ NP \in Nat /\ W \in Nat
                 /\ Off \in [0..NP -> Nat]
                 /\ Off[0] = 0 /\ Off[NP] = N
                 /\ \A p \in 1..NP : Off[p - 1] <= Off[p]
                 /\ FailP \subseteq 1..NP

VARIABLES st, res, g, gp, outcome
vars == <<st, res, g, gp, outcome>>

Parts      == 1..NP
Iota(n)    == [i \in 1..n |-> i]
PartSeq(p) == [k \in 1..(Off[p] - Off[p - 1]) |-> Off[p - 1] + k]

Init == /\ st = [p \in Parts |-> "pending"]
        /\ res = [p \in Parts |-> << >>]
        /\ g = << >> /\ gp = 1
        /\ outcome = [tag |-> "None", val |-> << >>]

Start(p) == /\ st[p] = "pending" /\ outcome.tag = "None"
            /\ st' = [st EXCEPT ![p] = "running"]
            /\ UNCHANGED <<res, g, gp, outcome>>

Finish(p) == /\ st[p] = "running" /\ p \notin FailP
             /\ st' = [st EXCEPT ![p] = "done"]
             /\ res' = [res EXCEPT ![p] = PartSeq(p)]
             /\ UNCHANGED <<g, gp, outcome>>

Fail(p) == /\ st[p] = "running" /\ p \in FailP
           /\ st' = [st EXCEPT ![p] = "failed"]
           /\ outcome' = [tag |-> "Err", val |-> << >>]
           /\ UNCHANGED <<res, g, gp>>

(* the gather task: runs once every partition is done, appends the partition results in index order *)
GatherStep == /\ outcome.tag = "None" /\ gp \in Parts
              /\ \A p \in Parts : st[p] = "done"
              /\ g' = g \o res[gp] /\ gp' = gp + 1
              /\ UNCHANGED <<st, res, outcome>>

Return == /\ outcome.tag = "None" /\ gp = NP + 1
          /\ \A p \in Parts : st[p] = "done"
          /\ outcome' = [tag |-> "Ok", val |-> g]
          /\ UNCHANGED <<st, res, g, gp>>

Next == \/ \E p \in Parts : Start(p) \/ Finish(p) \/ Fail(p)
        \/ GatherStep \/ Return

Spec == Init /\ [][Next]_vars

-----------------------------------------------------------------------------
(* C10 *)
OkIsIdentity == outcome.tag = "Ok" => outcome.val = Iota(N)
NeverSilent  == FailP # {} => outcome.tag # "Ok"
Safe == OkIsIdentity /\ NeverSilent

Inv == /\ st \in [Parts -> {"pending", "running", "done", "failed"}]
       /\ res \in [Parts -> Seq(Nat)]
       /\ gp \in 1..(NP + 1)
       /\ outcome.tag \in {"None", "Ok", "Err"}
       /\ \A p \in Parts : st[p] = "done" => res[p] = PartSeq(p) /\ p \notin FailP
       /\ g = Iota(Off[gp - 1])
       /\ outcome.tag = "Ok" => outcome.val = Iota(N) /\ \A p \in Parts : st[p] = "done"

-----------------------------------------------------------------------------
(* appending partition p to <<1..Off[p-1]>> gives <<1..Off[p]>> *)
LEMMA IotaConcat == ASSUME NEW a \in Nat, NEW b \in Nat, a <= b
                PROVE  Iota(a) \o [k \in 1..(b - a) |-> a + k] = Iota(b)
<1> DEFINE s == Iota(a)
           t == [k \in 1..(b - a) |-> a + k]
           m == [i \in 1..b |-> IF i <= a THEN s[i] ELSE t[i - a]]
<1>1. Len(s) = a /\ s \in Seq(Nat)
    BY DEF Iota
<1>2. Len(t) = b - a /\ t \in Seq(Nat)
    OBVIOUS
<1>3. s \o t = [i \in 1..(Len(s) + Len(t)) |-> IF i <= Len(s) THEN s[i] ELSE t[i - Len(s)]]
    BY <1>1, <1>2
<1>4. Len(s) + Len(t) = b
    BY <1>1, <1>2
<1>5. s \o t = m
    BY <1>1, <1>3, <1>4
<1>6. \A i \in 1..b : m[i] = i
    BY DEF Iota
<1>7. m = [i \in 1..b |-> i]
    BY <1>6
<1> HIDE DEF s, t, m
<1>8. s \o t = Iota(b)
    BY <1>5, <1>7 DEF Iota
<1> QED
    BY <1>8 DEF s, t

THEOREM InitInv == Init => Inv
<1> SUFFICES ASSUME Init PROVE Inv
    OBVIOUS
<1>1. g = Iota(Off[gp - 1])
    BY Consts DEF Init, Iota
<1> QED
    BY <1>1, Consts DEF Init, Inv, Parts

THEOREM StepInv == Inv /\ [Next]_vars => Inv'
<1> SUFFICES ASSUME Inv, [Next]_vars PROVE Inv'
    OBVIOUS
<1> USE Consts DEF Parts
<1>1. ASSUME NEW p \in Parts, Start(p) PROVE Inv'
    BY <1>1 DEF Inv, Start
<1>2. ASSUME NEW p \in Parts, Finish(p) PROVE Inv'
    <2>1. PartSeq(p) \in Seq(Nat)
        BY DEF PartSeq
    <2> QED
        BY <1>2, <2>1 DEF Inv, Finish
<1>3. ASSUME NEW p \in Parts, Fail(p) PROVE Inv'
    BY <1>3 DEF Inv, Fail
<1>4. ASSUME GatherStep PROVE Inv'
    <2>1. gp \in 1..NP /\ res[gp] = PartSeq(gp)
        BY <1>4 DEF Inv, GatherStep
    <2>2. Off[gp - 1] \in Nat /\ Off[gp] \in Nat /\ Off[gp - 1] <= Off[gp]
        BY <2>1
    <2>3. g' = Iota(Off[gp - 1]) \o [k \in 1..(Off[gp] - Off[gp - 1]) |-> Off[gp - 1] + k]
        BY <1>4, <2>1 DEF Inv, GatherStep, PartSeq
    <2>a. Iota(Off[gp - 1]) \o [k \in 1..(Off[gp] - Off[gp - 1]) |-> Off[gp - 1] + k] = Iota(Off[gp])
        BY <2>2, IotaConcat
    <2>4. g' = Iota(Off[gp])
        BY <2>3, <2>a
    <2>5. gp' = gp + 1 /\ gp' - 1 = gp
        BY <1>4, <2>1 DEF GatherStep
    <2>6. g' = Iota(Off[gp' - 1])
        BY <2>4, <2>5
    <2> QED
        BY <1>4, <2>1, <2>5, <2>6 DEF Inv, GatherStep
<1>5. ASSUME Return PROVE Inv'
    <2>1. g = Iota(N)
        BY <1>5 DEF Inv, Return
    <2> QED
        BY <1>5, <2>1 DEF Inv, Return
<1>6. ASSUME UNCHANGED vars PROVE Inv'
    BY <1>6 DEF Inv, vars
<1> QED
    BY <1>1, <1>2, <1>3, <1>4, <1>5, <1>6 DEF Next

THEOREM InvSafe == Inv => Safe
<1> SUFFICES ASSUME Inv PROVE Safe
    OBVIOUS
<1>1. OkIsIdentity
    BY DEF Inv, OkIsIdentity
<1>2. NeverSilent
    BY Consts DEF Inv, NeverSilent, Parts
<1> QED
    BY <1>1, <1>2 DEF Safe

THEOREM Correct == Spec => []Safe
<1>1. Inv /\ [][Next]_vars => []Inv
    BY StepInv, PTL
<1> QED
    BY <1>1, InitInv, InvSafe, PTL DEF Spec
=============================================================================
