-------------------------------- MODULE MCCli --------------------------------
EXTENDS Cli, TLC
MCOptions == [count : {0, 37}, mono : {"absent", "zero", "value"}, power : BOOLEAN, nocloud : BOOLEAN, monocloud : {"absent", "zero", "value"},
              pmap : BOOLEAN, out : BOOLEAN, w : BOOLEAN, n : BOOLEAN]
ASSUME PrintT(<<"CLIOPTIONS", MCOptions>>)
=============================================================================
