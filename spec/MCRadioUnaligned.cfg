SPECIFICATION Spec
CONSTANT Unaligned = TRUE
INVARIANT SameBins
INVARIANT NonEmpty
CHECK_DEADLOCK FALSE
