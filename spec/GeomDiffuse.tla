----------------------------- MODULE GeomDiffuse -----------------------------
(***************************************************************************)
(* C01, C02.  Diffuse-mode geometry: the region, the sampling map from the  *)
(* unit hypercube, its densities, the measure, the integrand, and the 3-D   *)
(* consistency of a thrown trajectory.  Derived from the geometry, not from *)
(* the implementation.                                                      *)
(*                                                                          *)
(* Region record c: [H, R (km), limb, thetaMax, dPhi (rad)]                 *)
(*   H = R + detector altitude; limb = angle from the limb; thetaMax =      *)
(*   maximum Cherenkov angle; dPhi = azimuth range.                         *)
(* Coordinates of a trajectory: l (line-of-sight length detector - spot),   *)
(*   phiS (azimuth of the spot about the detector nadir), theta / phi       *)
(*   (polar angle / azimuth of the trajectory about the line of sight).     *)
(***************************************************************************)
EXTENDS Float64, Naturals

K(c) == FSub(FSq(c.H), FSq(c.R))                       \* = lMax^2
AlphaHor(c) == FAsin(FDiv(c.R, c.H))                   \* nadir angle of the horizon
LMax(c) == FSqrt(K(c))                                 \* distance to the horizon
(* nearest intersection of the line at nadir angle (horizon - limb) with the sphere *)
LMin(c) == LET a == FSub(AlphaHor(c), c.limb) IN
           FSub(FMul(c.H, FCos(a)), FSqrt(FSub(FSq(c.R), FSq(FMul(c.H, FSin(a))))))
G(c, l) == FSub(FMul(FMul(FInt(3), K(c)), l), FMul(l, FSq(l)))
B(c) == FSub(G(c, LMax(c)), G(c, LMin(c)))

(* ---- the four cumulative distributions (C01, C02: the sampled value is their inverse image) ---------- *)
CdfTheta(c, th) == FDiv(FSq(FSin(th)), FSq(FSin(c.thetaMax)))
CdfPhi(ph)      == FDiv(ph, FMul(FTwo, FPi))
CdfPhiS(c, ps)  == FDiv(FAdd(ps, FDiv(c.dPhi, FTwo)), c.dPhi)
CdfL(c, l)      == FDiv(FSub(G(c, LMax(c)), G(c, l)), B(c))      \* u = 0 at the horizon, 1 at the nearest point
(* ---- and their densities ---------------------------------------------------------------------------- *)
PdfTheta(c, th) == FDiv(FMul(FTwo, FMul(FSin(th), FCos(th))), FSq(FSin(c.thetaMax)))
PdfPhi          == FDiv(FOne, FMul(FTwo, FPi))
PdfPhiS(c)      == FDiv(FOne, c.dPhi)
PdfL(c, l)      == FDiv(FMul(FInt(3), FSub(K(c), FSq(l))), B(c))
Pdf(c, l, th)   == FMul(FMul(PdfTheta(c, th), PdfPhi), FMul(PdfPhiS(c), PdfL(c, l)))

(* ---- geometry of one trajectory -------------------------------------------------------------------- *)
CosThetaS(c, l) == FDiv(FSub(FAdd(FSq(c.H), FSq(c.R)), FSq(l)), FMul(FMul(FTwo, c.R), c.H))   \* Earth-central angle
CosNV(c, l)     == FDiv(FSub(K(c), FSq(l)), FMul(FMul(FTwo, c.R), l))      \* local normal vs line of sight
(* cos(trajectory, local normal) from the angle nv between normal and line of sight *)
CosTrN(cosNV, th, ph) == FSub(FMul(FCos(th), cosNV), FMul(FMul(FSin(th), FSqrt(FMax(FZero, FSub(FOne, FSq(cosNV))))), FCos(ph)))
BetaDeg(cosTrN) == FDegrees(FAsin(FClip(cosTrN, FNeg(FOne), FOne)))       \* emergence angle = 90 deg - angle to the vertical
Kept(cosTrN) == FGe(cosTrN, FZero) /\ FLt(BetaDeg(cosTrN), FInt(42))

(* ---- the estimator ----------------------------------------------------------------------------------- *)
(* measure: dA dOmega = (R/H) l dl dphiS . sin(theta) dtheta dphi ;  integrand: cos(trajectory, normal)    *)
MeasureDensity(c, l, th) == FMul(FMul(FDiv(c.R, c.H), l), FSin(th))
McNorm(c) == FDiv(FMul(FMul(FSq(FSin(c.thetaMax)), FPi), FMul(c.dPhi, B(c))), FMul(FInt(6), c.H))
Weight(cosTrN, cosNV, th) == FDiv(FDiv(cosTrN, cosNV), FCos(th))

(* ---- explicit vectors (C02) -------------------------------------------------------------------------- *)
(* unit vector of (lat, lon) in radians, Earth-centred Earth-fixed *)
UX(lat, lon) == FMul(FCos(lat), FCos(lon))
UY(lat, lon) == FMul(FCos(lat), FSin(lon))
UZ(lat, lon) == FSin(lat)
Dot3(a, b) == FAdd(FAdd(FMul(a[1], b[1]), FMul(a[2], b[2])), FMul(a[3], b[3]))
Unit(lat, lon) == <<UX(lat, lon), UY(lat, lon), UZ(lat, lon)>>
Scale3(k, a) == <<FMul(k, a[1]), FMul(k, a[2]), FMul(k, a[3])>>
Sub3(a, b) == <<FSub(a[1], b[1]), FSub(a[2], b[2]), FSub(a[3], b[3])>>
Norm3(a) == FSqrt(Dot3(a, a))
Cross3(a, b) == <<FSub(FMul(a[2], b[3]), FMul(a[3], b[2])), FSub(FMul(a[3], b[1]), FMul(a[1], b[3])), FSub(FMul(a[1], b[2]), FMul(a[2], b[1]))>>
(* angle between two unit vectors, well conditioned near 0 *)
Angle3(a, b) == FAtan2(Norm3(Cross3(a, b)), Dot3(a, b))
(* azimuth (from north, through east) of the direction of unit vector s as seen from the point with unit vector d *)
AzimuthFrom(dlat, dlon, s) ==
    LET east == <<FNeg(FSin(dlon)), FCos(dlon), FZero>>
        north == <<FNeg(FMul(FSin(dlat), FCos(dlon))), FNeg(FMul(FSin(dlat), FSin(dlon))), FCos(dlat)>>
    IN FAtan2(Dot3(s, east), Dot3(s, north))

(* a point at distance s along a straight line leaving the surface at emergence angle beta (radians) *)
AltAlong(s, beta, R) == FSub(FSqrt(FAdd(FAdd(FSq(R), FSq(s)), FMul(FMul(FTwo, R), FMul(s, FSin(beta))))), R)
GroundOffset(s, beta, R) == FAtan2(FMul(s, FCos(beta)), FAdd(R, FMul(s, FSin(beta))))
=============================================================================
