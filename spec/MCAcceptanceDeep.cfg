CONSTANT Deep = TRUE
SPECIFICATION Spec
INVARIANT PermutationInvariant
INVARIANT ThresholdMonotone
INVARIANT BoundedByGeo
INVARIANT NonNegative
INVARIANT DarkOnlyRemoves
INVARIANT DarkOpticalTargetOnly
INVARIANT DividesByThrown
CHECK_DEADLOCK FALSE
