---------------------------- MODULE MCGeomDiffuse ----------------------------
(***************************************************************************)
(* Lattice check of GeomDiffuse.tla over regions (altitudes 5 .. 36000 km,  *)
(* limb angles, cone angles, azimuth ranges):                               *)
(*  (1) the CDFs are 0 / 1 at the region's ends and the densities are their *)
(*      derivatives (central differences);                                  *)
(*  (2) weight x mcnorm x pdf = integrand x measure density, pointwise;     *)
(*  (3) the quantile of the line-of-sight length (trigonometric root) is    *)
(*      in range and inverts the CDF on the closed interval.                *)
(***************************************************************************)
EXTENDS GeomDiffuse, TLC, Sequences
Re == FDec("6378.1")
Alts == {FInt(5), FInt(33), FInt(525), FInt(2000), FInt(36000)}
Regions == { [H |-> FAdd(Re, a), R |-> Re, limb |-> FMul(f, FAsin(FDiv(Re, FAdd(Re, a)))), thetaMax |-> FRadians(t), dPhi |-> FRadians(d)] :
               a \in Alts, f \in {FDec("0.01"), FDec("0.1"), FDec("0.9")}, t \in {FDec("0.5"), FInt(3), FInt(30), FInt(80)},
               d \in {FInt(10), FInt(360)} }
Fr == <<FDec("0.001"), FDec("0.1"), FDec("0.37"), FDec("0.5"), FDec("0.9"), FDec("0.999")>>
VARIABLES c, i, j, k
vars == <<c, i, j, k>>
Init == c \in Regions /\ i \in 1..Len(Fr) /\ j \in 1..Len(Fr) /\ k \in 1..Len(Fr)
Next == UNCHANGED vars
Spec == Init /\ [][Next]_vars
l == FAdd(LMin(c), FMul(Fr[i], FSub(LMax(c), LMin(c))))
th == FMul(Fr[j], c.thetaMax)
ph == FMul(Fr[k], FMul(FTwo, FPi))
Deriv(F(_), x, h) == FDiv(FSub(F(FAdd(x, h)), F(FSub(x, h))), FMul(FTwo, h))
CdfEnds == /\ FClose(CdfL(c, LMax(c)), FZero, FZero, FDec("1e-12")) /\ FClose(CdfL(c, LMin(c)), FOne, FDec("1e-12"), FZero)
           /\ FClose(CdfTheta(c, c.thetaMax), FOne, FDec("1e-12"), FZero) /\ CdfTheta(c, FZero) = FZero
           /\ FClose(CdfPhiS(c, FDiv(c.dPhi, FTwo)), FOne, FDec("1e-12"), FZero) /\ FClose(CdfPhiS(c, FNeg(FDiv(c.dPhi, FTwo))), FZero, FZero, FDec("1e-12"))
PdfIsDerivative ==
    /\ FClose(FNeg(Deriv(LAMBDA x : CdfL(c, x), l, FMul(FDec("1e-5"), FSub(LMax(c), LMin(c))))), PdfL(c, l), FDec("1e-5"), FZero)
    /\ FClose(Deriv(LAMBDA x : CdfTheta(c, x), th, FMul(FDec("1e-5"), c.thetaMax)), PdfTheta(c, th), FDec("1e-5"), FZero)
WeightIdentity ==
    LET cnv == CosNV(c, l)  ctn == CosTrN(cnv, th, ph) IN
    FClose(FMul(FMul(Weight(ctn, cnv, th), McNorm(c)), Pdf(c, l, th)), FMul(ctn, MeasureDensity(c, l, th)), FDec("1e-10"), FDec("1e-300"))
(* the trigonometric root: psi = acos(r / K^1.5), l = 2 sqrt(K) cos((psi + 4 pi) / 3) with r = (b u - G(lMax)) / 2 *)
Quantile(u) == LET r == FDiv(FSub(FMul(B(c), u), G(c, LMax(c))), FTwo)
                   psi == FAcos(FClip(FDiv(r, FMul(K(c), FSqrt(K(c)))), FNeg(FOne), FOne))
               IN FClip(FMul(FMul(FTwo, FSqrt(K(c))), FCos(FDiv(FAdd(psi, FMul(FInt(4), FPi)), FInt(3)))), LMin(c), LMax(c))
Us == <<FZero, FDec("5e-324"), FDec("1e-17"), Fr[i], FNextDown(FOne), FOne>>
QuantileInverts == \A n \in 1..Len(Us) : /\ FLe(LMin(c), Quantile(Us[n])) /\ FLe(Quantile(Us[n]), LMax(c))
                                         /\ FClose(CdfL(c, Quantile(Us[n])), Us[n], FZero, FDec("1e-9"))
RegionSane == FLt(FZero, LMin(c)) /\ FLt(LMin(c), LMax(c)) /\ FGt(B(c), FZero) /\ FGt(McNorm(c), FZero)
=============================================================================
