SPECIFICATION Spec
INVARIANT TriangleClosed
INVARIANT KeepIsConjunction
INVARIANT DarkMonotone
CHECK_DEADLOCK FALSE
