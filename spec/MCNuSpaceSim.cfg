SPECIFICATION Spec
CONSTANT Configs <- MCConfigs
INVARIANT TypeOK
INVARIANT DiskIsMemAtBoundary
INVARIANT DiskIsPrefix
INVARIANT DiskIsCommitted
INVARIANT NoWriteWhenDisabled
INVARIANT StaleReplaced
INVARIANT FinalStructure
PROPERTY FileOnlyGrows
