SPECIFICATION Spec
CONSTANT Paths = {"h5", "fits"}
CONSTANT Values = {"g1", "g2", "g3"}
CONSTANT MaxWrites = 3
INVARIANT LossFree
CHECK_DEADLOCK FALSE
