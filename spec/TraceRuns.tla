----------------------------- MODULE TraceRuns -----------------------------
(* Trace validation of a set of completed compute() runs against RunMatrix.  *)
(* One event = one run; the clauses compare it with every earlier run.       *)
EXTENDS TraceKit, RunMatrix

Check(e) ==
    Fails(<< <<"C14 (R) same configuration and seed give a bit-identical table under every scheduler",
               \A b \in runs : Reproducible(e, b)>>,
             <<"C14 (I-opt) switching radio on/off leaves every optical column and header value unchanged",
               \A b \in runs : OpticalIsolated(e, b)>>,
             <<"C14 (I-rad) switching optical on/off leaves every radio column and header value unchanged",
               \A b \in runs : RadioIsolated(e, b)>> >>)

TInit == TKInit /\ Init
TNext == TKAdvance /\ Record(Ev) /\ TKRecord(Check(Ev))
TSpec == TInit /\ [][TNext]_<<tkvars, runs>>
=============================================================================
