-------------------------- MODULE MCStdAtmosphere --------------------------
(* Lattice check of StdAtmosphere.tla: altitudes 0..120 km in steps of Step    *)
(* metres, and every layer boundary +- {0..60} ulps; round trips, positivity,  *)
(* near-monotonicity (steps <= 3e-7 relative from the tabulated constants).    *)
EXTENDS StdAtmosphere, TLC, Integers
CONSTANT Step          \* metres
VARIABLES n, mode, k, d
vars == <<n, mode, k, d>>
Z == IF mode = "grid" THEN FDiv(FInt(n * Step), FInt(1000))
     ELSE LET W[i \in 0..60] == IF i = 0 THEN ZBase(k) ELSE (IF d > 0 THEN FNextUp(W[i-1]) ELSE FNextDown(W[i-1]))
          IN W[n]
Init == \/ mode = "grid" /\ n = 0 /\ k = 1 /\ d = 1
        \/ mode = "edge" /\ n = 0 /\ k \in 2..8 /\ d \in {-1, 1}
Next == \/ mode = "grid" /\ n * Step < 120000 /\ n' = n + 1 /\ UNCHANGED <<mode, k, d>>
        \/ mode = "edge" /\ n < 60 /\ n' = n + 1 /\ UNCHANGED <<mode, k, d>>
Spec == Init /\ [][Next]_vars
ZNext == IF mode = "grid" THEN FDiv(FInt((n + 1) * Step), FInt(1000)) ELSE Z
RoundTripZ == FLe(FAbs(FSub(Altitude(Pressure(Z)), Z)), FDec("1e-6"))
RoundTripP == LET P == Pressure(Z) IN FLe(FAbs(FSub(Pressure(Altitude(P)), P)), FMul(FDec("1e-6"), P))
Positive == FGt(Pressure(Z), FZero)
NearlyMonotone == FLe(Pressure(ZNext), FMul(Pressure(Z), FDec("1.0000003")))
ASSUME TableSound
Ends == /\ Pressure(FInf) = FZero /\ Altitude(FZero) = FInf
        /\ FClose(Pressure(FZero), P0, FDec("1e-15"), FZero) /\ FLe(FAbs(Altitude(P0)), FDec("1e-9"))
=============================================================================
