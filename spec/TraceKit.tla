---------------------------- MODULE TraceKit ----------------------------
(***************************************************************************)
(* Total, self-explaining trace validation.                                 *)
(*                                                                          *)
(* The trace is an ndjson file named by the environment variable            *)
(* TRACE_FILE; one line = one event recorded from the implementation.  A    *)
(* trace spec supplies Check(e), which returns the sequence of names of the *)
(* clauses that event e violates (<<>> = the event is a legal step).  Every *)
(* event is consumed: a failing event does not stop the behaviour, it is    *)
(* recorded in `bad' as <<clause, line>> (at most MaxBad entries), so one    *)
(* run reports all failing events.  TLC decides: POSTCONDITION TKAccepted   *)
(* is false iff some event failed or some line was not consumed.            *)
(***************************************************************************)
EXTENDS Naturals, Sequences, TLC, Json, IOUtils

Trace == ndJsonDeserialize(IOEnv.TRACE_FILE)

VARIABLES tkLine, bad
tkvars == <<tkLine, bad>>

MaxBad == 400

Tag(fails, line) == [i \in 1..Len(fails) |-> <<fails[i], line>>]
Cap(s) == IF Len(s) > MaxBad THEN SubSeq(s, 1, MaxBad) ELSE s

TKInit == tkLine = 1 /\ bad = <<>> /\ TLCSet(1, <<"unfinished">>)

(* Stateful trace specs write their step as                                               *)
(*     TKAdvance /\ <spec action for Trace[tkLine]> /\ TKRecord(<failing clause names>)        *)
(* where the clause names may be computed from primed variables (invariants evaluated in  *)
(* the successor state).  (First-order on purpose: passing an action-level operator as an *)
(* argument made TLC 10x slower.)                                                          *)
TKAdvance == tkLine <= Len(Trace) /\ tkLine' = tkLine + 1
TKRecord(fails) ==
    /\ bad' = Cap(bad \o Tag(fails, tkLine))
    /\ IF tkLine = Len(Trace)
          THEN TLCSet(1, bad') /\ PrintT(<<"VERDICT", Len(Trace), bad'>>)
          ELSE TRUE
Ev == Trace[tkLine]

TKStep(Check(_)) ==
    /\ tkLine <= Len(Trace)
    /\ tkLine' = tkLine + 1
    /\ bad' = Cap(bad \o Tag(Check(Trace[tkLine]), tkLine))
    /\ IF tkLine = Len(Trace)
          THEN TLCSet(1, bad') /\ PrintT(<<"VERDICT", Len(Trace), bad'>>)
          ELSE TRUE

TKAccepted == /\ TLCGet(1) = <<>>
              /\ TLCGet("stats").diameter - 1 = Len(Trace)

(* helpers for writing Check: a clause is <<name, holds>>; Fails keeps the  *)
(* names of those that do not hold.                                         *)
Fails(clauses) == LET F[i \in 0..Len(clauses)] ==
                        IF i = 0 THEN <<>>
                        ELSE IF clauses[i][2] THEN F[i-1] ELSE Append(F[i-1], clauses[i][1])
                  IN F[Len(clauses)]
=============================================================================
