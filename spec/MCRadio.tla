------------------------------ MODULE MCRadio ------------------------------
(* Exhaustive over all 13 695 aligned bands in 0-1650 MHz: the field bins and the antenna / noise bins are the same set.   *)
(* The counter-model (Unaligned) shows that they differ when an edge is not a multiple of 10 MHz, so the invariant is not  *)
(* vacuous.                                                                                                                 *)
EXTENDS Radio, TLC
CONSTANT Unaligned
VARIABLES lo, hi
Init == IF Unaligned THEN lo \in {25, 30, 33} /\ hi \in {78, 80, 300, 305}
        ELSE lo \in {10 * k : k \in 0..164} /\ hi \in {10 * k : k \in 1..165} /\ lo < hi
Next == UNCHANGED <<lo, hi>>
Spec == Init /\ [][Next]_<<lo, hi>>
SameBins == FieldBins(lo, hi) = AntennaBins(lo, hi)
NonEmpty == FieldBins(lo, hi) # {}
=============================================================================
