SPECIFICATION Spec
INVARIANT NodeExact
INVARIANT CellBounded
INVARIANT ClampRules
CHECK_DEADLOCK FALSE
