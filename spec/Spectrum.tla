------------------------------ MODULE Spectrum ------------------------------
(***************************************************************************)
(* C12.  Neutrino energy spectra.  x = log10(E/GeV).  Power law             *)
(* dN/dE ~ E^-p on [10^lo, 10^hi]; with q = 1 - p and s = q ln10:           *)
(*     CDF(x) = (e^{s(x-lo)} - 1) / (e^{s(hi-lo)} - 1),   p # 1             *)
(*     CDF(x) = (x - lo) / (hi - lo),                     p = 1             *)
(* written with expm1 so that it is well conditioned for every index.       *)
(* The sampled value must be the inverse-CDF image of its uniform number,   *)
(* checked as a BACKWARD error: CDF(x) = u.                                 *)
(***************************************************************************)
EXTENDS Float64, Naturals

Ln10 == FLn(FInt(10))
S(p) == FMul(FSub(FOne, p), Ln10)
CDF(x, p, lo, hi) ==
    IF FEq(S(p), FZero) THEN FDiv(FSub(x, lo), FSub(hi, lo))
    ELSE FDiv(FExpm1(FMul(S(p), FSub(x, lo))), FExpm1(FMul(S(p), FSub(hi, lo))))
(* the closed-form inverse, used by the lattice model *)
Quantile(u, p, lo, hi) ==
    IF FEq(S(p), FZero) THEN FAdd(lo, FMul(u, FSub(hi, lo)))
    ELSE FAdd(lo, FDiv(FLog1p(FMul(u, FExpm1(FMul(S(p), FSub(hi, lo))))), S(p)))
InBounds(x, lo, hi) == FLe(lo, x) /\ FLe(x, hi)
(* integral of E^-p over the range: the two factors returned with the sample are 1/I and I *)
Integral(p, lo, hi) ==
    LET q == FSub(FOne, p) IN
    IF FEq(q, FZero) THEN FMul(Ln10, FSub(hi, lo))
    ELSE (* 10^(q hi) - 10^(q lo) = 10^(q lo) expm1(s (hi - lo)): no cancellation for narrow ranges or indices next to 1 *)
         FDiv(FMul(FPow(FInt(10), FMul(q, lo)), FExpm1(FMul(S(p), FSub(hi, lo)))), q)
=============================================================================
