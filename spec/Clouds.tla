------------------------------ MODULE Clouds ------------------------------
(***************************************************************************)
(* C09.  Clouds.                                                            *)
(* (a) kernel rule, in terms of the altitudes zs of the event's simulated   *)
(*     shower segments: a cloud top at or below the first segment changes   *)
(*     nothing (bit for bit); a cloud top above the penultimate segment     *)
(*     gives exactly (0, 0); in between the light emitted below the cloud   *)
(*     top is removed (decided by Cherenkov.tla with its cloudTop input).   *)
(* (b) cloud-top models: constant models; the monthly pressure map returns  *)
(*     the standard-atmosphere altitude of the map pressure at a corner of  *)
(*     the map cell containing the event's ground (lat, long) in radians.   *)
(* Map (MAP_FILE): [lat : 361 nodes, lon : 576 nodes (degrees), p : [i][j]] *)
(***************************************************************************)
EXTENDS StdAtmosphere, GridInterp

Regime(top, zsFirst, zsPen) ==
    IF FLe(top, zsFirst) THEN "below" ELSE IF FGt(top, zsPen) THEN "above" ELSE "between"

Map == JsonDeserialize(IOEnv.MAP_FILE)

LatDeg(lat) == FDegrees(lat)
(* wrap into [-180, 180) *)
LonDeg(lon) == FSub(FMod(FAdd(FDegrees(lon), FInt(180)), FInt(360)), FInt(180))
Clamp(ax, x) == FClip(x, ax[1], ax[Len(ax)])

(* the four corners of the map cell containing the point: any of them is a conforming lookup (searchsorted, *)
(* nearest node and floor conventions all return one of them)                                                *)
CornerAltitudes(lat, lon) ==
    LET x == Clamp(Map.lat, LatDeg(lat))  y == Clamp(Map.lon, LonDeg(lon))
        i == Cell(Map.lat, x)  j == Cell(Map.lon, y)
    IN {Altitude(Map.p[a][b]) : a \in {i, i + 1}, b \in {j, j + 1}}
(* a point within 1e-9 deg of a grid line may be attributed to the neighbouring cell *)
NearbyCornerAltitudes(lat, lon) ==
    LET d == FDec("1e-9") IN
    UNION {CornerAltitudes(FAdd(lat, FRadians(a)), FAdd(lon, FRadians(b))) : a \in {FNeg(d), FZero, d}, b \in {FNeg(d), FZero, d}}
=============================================================================
