SPECIFICATION Spec
INVARIANT BackwardError
INVARIANT Range
INVARIANT Monotone
INVARIANT Ends
CHECK_DEADLOCK FALSE
