----------------------------- MODULE TauTables -----------------------------
(***************************************************************************)
(* The tau propagation tables as specification constants and what the       *)
(* simulator must compute from them (C04, C05, C07, C18).                   *)
(* Tab is read from the JSON file named by the environment variable         *)
(* TABLE_FILE, which the harness exports with h5py straight from the        *)
(* shipped nu2tau_cdf.<v>.h5 / nu2tau_pexit.<v>.h5 (doubles as bit pairs):  *)
(*   [cdf   : [e, b, z : axes,  data : [i][j][k]],                          *)
(*    pexit : [e, b : axes,     data : [i][j]]]                             *)
(***************************************************************************)
EXTENDS GridInterp, Json, IOUtils

Tab == JsonDeserialize(IOEnv.TABLE_FILE)

Eps32   == FDec("1.1920928955078125e-07")     \* binary32 machine epsilon: the floor
MassTau == FDec("1.77686")                    \* GeV

(* ---- tau energy fraction CDF (C04) ---------------------------------------- *)
CE == Tab.cdf.e   CB == Tab.cdf.b   CZ == Tab.cdf.z
BetaMinC == CB[1]
BetaMaxC == CB[Len(CB)]
EnergyInTable(e) == InAxis(CE, e)

(* angles below the tabulated minimum use the minimum-angle distribution *)
ClampLow(b) == IF FLt(b, BetaMinC) THEN BetaMinC ELSE b
AboveTable(b) == FGt(b, BetaMaxC)

(* bilinearly interpolated CDF at node k of the fraction axis, for any table T = [e, b, z, data] *)
RowAtT(T, e, b, k) == Bilerp(LAMBDA i, j : T.data[i][j][k], T.e, T.b, e, b)
(* F(z | E_nu, beta) on table T (no clamping) *)
FT(T, z, e, b) == Forward(LAMBDA k : RowAtT(T, e, b, k), T.z, z)
RowAt(e, b, k) == RowAtT(Tab.cdf, e, b, k)
(* F(z | E_nu, beta) on the shipped table, with the low-angle clamp *)
F(z, e, b) == FT(Tab.cdf, z, e, ClampLow(b))
ZMin == CZ[1]
ZMax == CZ[Len(CZ)]

(* ---- exit probability (C05) ------------------------------------------------ *)
PE == Tab.pexit.e   PB == Tab.pexit.b
Floored(i, j) == IF FLe(Tab.pexit.data[i][j], FZero) THEN Eps32 ELSE Tab.pexit.data[i][j]
LogP(i, j) == FLog10(Floored(i, j))
BetaMinP == PB[1]
BetaMaxP == PB[Len(PB)]
Pexit(e, b) ==
    IF FGt(b, BetaMaxP) THEN Eps32
    ELSE LET bb == IF FLt(b, BetaMinP) THEN BetaMinP ELSE b
         IN FPow(FInt(10), Bilerp(LogP, PE, PB, e, bb))
PexitLo(e, b) == LET bb == IF FLt(b, BetaMinP) THEN BetaMinP ELSE b IN CornerMin(Floored, PE, PB, e, bb)
PexitHi(e, b) == LET bb == IF FLt(b, BetaMinP) THEN BetaMinP ELSE b IN CornerMax(Floored, PE, PB, e, bb)

(* ---- soundness of the shipped data (C18) ------------------------------------ *)
Ten == FInt(10)
AxesSound == /\ StrictlyIncreasing(CE) /\ StrictlyIncreasing(CB) /\ StrictlyIncreasing(CZ)
             /\ StrictlyIncreasing(PE) /\ StrictlyIncreasing(PB)
RowsSound == \A i \in 1..Len(CE), j \in 1..Len(CB) :
                LET row == Tab.cdf.data[i][j] IN
                /\ NonDecreasing(row)
                /\ row[1] = FZero
                /\ FLe(FAbs(FSub(row[Len(row)], FOne)), FDec("1e-15"))
PexitSound == \A i \in 1..Len(PE), j \in 1..Len(PB) : FLe(Tab.pexit.data[i][j], FOne)
(* the zero plateau of a row ends at its last zero node: the smallest fraction the sampler can return for that row *)
LastZero(row) == CHOOSE k \in 1..Len(row) : row[k] = FZero /\ (k = Len(row) \/ FGt(row[k + 1], FZero))
(* smallest reachable tau energy at grid nodes: z(first node after the zero plateau start) x E_nu *)
MinTauEnergyAtNode(i, j) == FMul(CZ[LastZero(Tab.cdf.data[i][j])], FPow(Ten, CE[i]))
(* in an interpolation cell the zero plateau of the blended row is the SHORTEST plateau of its corner rows *)
MinTauEnergyInCell(i, j) ==
    LET k == CHOOSE m \in {LastZero(Tab.cdf.data[a][b]) : a \in {i, i + 1}, b \in {j, j + 1}} :
                 \A n \in {LastZero(Tab.cdf.data[a][b]) : a \in {i, i + 1}, b \in {j, j + 1}} : m <= n
    IN FMul(CZ[k], FPow(Ten, CE[i]))
TauAboveMass == /\ \A i \in 1..Len(CE), j \in 1..Len(CB) : FGt(MinTauEnergyAtNode(i, j), MassTau)
                /\ \A i \in 1..(Len(CE) - 1), j \in 1..(Len(CB) - 1) : FGt(MinTauEnergyInCell(i, j), MassTau)
=============================================================================
