SPECIFICATION Spec
CONSTANT N = 5
CONSTANT Vals = {1, 2, 3, 4}
CONSTANT Bufs = {1, 2, 3, 5}
CONSTANT Variant = "BugWrongMask"
INVARIANT PositionWise
INVARIANT Prefix
CHECK_DEADLOCK FALSE
