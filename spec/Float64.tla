---------------------------- MODULE Float64 ----------------------------
(***************************************************************************)
(* IEEE-754 binary64 numbers for TLC.  A double is the pair <<hi, lo>> of   *)
(* the two signed 32-bit halves of its bit pattern (TLC integers are 32     *)
(* bit; JSON traces carry the same pair, so nothing is rounded on the way   *)
(* in).  Every operator below is overridden by tlc2.module.Float64 (Java);  *)
(* the TLA+ bodies are placeholders that TLC never evaluates.               *)
(***************************************************************************)
LOCAL INSTANCE Integers
LOCAL INSTANCE Sequences

LOCAL Undef == CHOOSE x \in {} : TRUE

FAdd(a, b)  == Undef
FSub(a, b)  == Undef
FMul(a, b)  == Undef
FDiv(a, b)  == Undef
FNeg(a)     == Undef
FAbs(a)     == Undef
FSqrt(a)    == Undef
FCbrt(a)    == Undef
FExp(a)     == Undef
FLn(a)      == Undef
FExpm1(a)   == Undef     \* exp(a) - 1 without cancellation
FLog1p(a)   == Undef     \* ln(1 + a) without cancellation
FLog10(a)   == Undef
FPow(a, b)  == Undef
FSin(a)     == Undef
FCos(a)     == Undef
FTan(a)     == Undef
FAsin(a)    == Undef
FAcos(a)    == Undef
FAtan(a)    == Undef
FAtan2(a, b) == Undef
FHypot(a, b) == Undef
FFloor(a)   == Undef
FMin(a, b)  == Undef
FMax(a, b)  == Undef
FMod(a, b)  == Undef     \* sign of the divisor (numpy %)
FLt(a, b)   == Undef
FLe(a, b)   == Undef
FEq(a, b)   == Undef     \* numeric equality (+0 = -0, NaN # NaN)
FIsFinite(a) == Undef
FIsNaN(a)   == Undef
FInt(n)     == Undef     \* integer -> double
FRat(n, m)  == Undef     \* n / m correctly rounded
FDec(s)     == Undef     \* decimal string -> nearest double
FNextUp(a)  == Undef
FNextDown(a) == Undef
F32(a)      == Undef     \* round through binary32
FToInt(a)   == Undef     \* floor, saturated to 32 bit
FUlps(a, b) == Undef     \* distance in ulps, saturated
FClose(a, b, rel, abs) == Undef
FSum(s)     == Undef     \* compensated sum of a sequence
FSeq(s)     == Undef     \* identity on sequences; forces TLC to materialise [i \in 1..n |-> e] once
FStr(a)     == Undef

-----------------------------------------------------------------------------
(* Derived, in plain TLA+.                                                  *)
FGt(a, b) == FLt(b, a)
FGe(a, b) == FLe(b, a)
FZero == FInt(0)
FOne  == FInt(1)
FTwo  == FInt(2)
FPi   == FDec("3.141592653589793")
FHalfPi == FDec("1.5707963267948966")
FInf  == FDiv(FOne, FZero)
FNegInf == FNeg(FInf)
FSq(a) == FMul(a, a)
FRadians(a) == FMul(a, FDiv(FPi, FInt(180)))
FDegrees(a) == FMul(a, FDiv(FInt(180), FPi))
FBitEq(a, b) == a = b                 \* identical bit pattern
FInRange(x, lo, hi) == FLe(lo, x) /\ FLe(x, hi)
FClip(x, lo, hi) == FMax(lo, FMin(x, hi))
IsF64(x) == x \in Seq(Int) /\ Len(x) = 2
=============================================================================
