------------------------------- MODULE TraceCli -------------------------------
(* Trace validation of `nuspacesim run` invocations against Cli.tla: one event per invocation with the options, whether it   *)
(* failed, what compute() received, and which files exist afterwards.                                                         *)
EXTENDS TraceKit, Cli

Check(e) ==
    LET o == e.opts IN
    IF Rejected(o)
    THEN Fails(<< <<"EXT: CLI conflicting options are rejected", e.failed>>,
                  <<"EXT: CLI nothing is computed or written after a rejection", ~e.computed /\ e.files = <<>> >> >>)
    ELSE Fails(<< <<"EXT: CLI a consistent invocation succeeds", ~e.failed /\ e.computed>>,
                  <<"EXT: CLI thrown events: the count argument overrides the file, 0 / absent keeps it", e.thrown = EffThrown(o, e.fileThrown)>>,
                  <<"EXT: CLI spectrum: option overrides the file", e.spectrum = EffSpectrum(o)>>,
                  <<"EXT: CLI cloud model: option overrides the file", e.cloud = EffCloud(o)>>,
                  <<"EXT: CLI write_stages is passed through", e.writeStages = o.w>>,
                  <<"EXT: CLI output path: the -o value or the default nuspacesim_run_<timestamp>.fits", e.path = OutPath(o)>>,
                  <<"EXT: CLI the results file exists unless --no-result-file (the staged file still exists with -w)",
                    (e.files # <<>>) <=> (~o.n \/ o.w)>>,
                  <<"EXT: CLI only the output path is written", Len(e.files) <= 1 /\ \A k \in 1..Len(e.files) : e.files[k] = OutPath(o)>> >>)

CONSTANTS Options, FileThrown
TInit == TKInit /\ opts = [count |-> 0] /\ phase = "start" /\ passed = [thrown |-> 0] /\ files = {}
TNext == TKStep(Check) /\ UNCHANGED vars
TSpec == TInit /\ [][TNext]_<<tkvars, vars>>
=============================================================================
