SPECIFICATION Spec
INVARIANT GammaAtLeastOne
INVARIANT SpeedInUnitInterval
INVARIANT ShowerEnergyScales
INVARIANT LengthNonNegative
INVARIANT LengthDecreasingInU
INVARIANT LengthZeroAtOne
INVARIANT AltitudeNonNegative
INVARIANT AltitudeIncreasingInLength
INVARIANT AltitudeIncreasingInAngle
INVARIANT ExponentialLaw
CHECK_DEADLOCK FALSE
