SPECIFICATION Spec
CONSTANT Buggy = TRUE
INVARIANT ReconAgrees
INVARIANT DefaultNotJudged
CHECK_DEADLOCK FALSE
