SPECIFICATION TSpec
CONSTANT Configs <- NoConfigs
POSTCONDITION TKAccepted
CHECK_DEADLOCK FALSE
