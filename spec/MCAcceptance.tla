---------------------------- MODULE MCAcceptance ----------------------------
(***************************************************************************)
(* Small-scope model of the estimators on a lattice where the comparisons   *)
(* sit ON the thresholds: batches of up to 2 events from a finite event     *)
(* set, every threshold of the lattice, both modes and channels.  TLC       *)
(* checks the consequences stated in C03.                                   *)
(***************************************************************************)
EXTENDS Acceptance, TLC, FiniteSets

CONSTANT Deep      \* FALSE: reduced lattice (quick tier)
VARIABLES evs, r
vars == <<evs, r>>

D(n, m) == FRat(n, m)
(* geometry chosen so that cos(theta) lands exactly on lattice points: theta = 0 -> 1; beta = pi/6 -> sin = 0.5 (approx) *)
EventSet ==
    { [beta |-> b, theta |-> t, cosTrV |-> FCos(t), path |-> p, pexit |-> q, lenDec |-> ld, trig |-> tr, cosEff |-> ce, dark |-> dk] :
        b \in {FDec("0.5235987755982988")}, t \in {FZero, FDec("0.05")}, p \in (IF Deep THEN {D(1000, 1), D(1500, 1)} ELSE {D(1100, 1)}),
        q \in (IF Deep THEN {D(1, 4), FOne} ELSE {D(1, 4)}), ld \in {FZero, D(1000, 1), D(1200, 1)}, tr \in {FOne, FTwo, D(4, 1)},
        ce \in {FOne, FCos(FDec("0.05")), D(3, 4)}, dk \in BOOLEAN }
Runs == { [mode |-> m, method |-> me, sunMoonCut |-> sm, thrown |-> n, H |-> D(6896, 1), R |-> D(6371, 1), mcnorm |-> D(4, 1),
           thr |-> th, specNorm |-> sn, specWsum |-> FDiv(FOne, sn)] :
           m \in {"Diffuse", "Target"}, me \in {"Optical", "Radio"}, sm \in BOOLEAN, n \in (IF Deep THEN {2, 8} ELSE {2}),
           th \in {FOne, FTwo, D(3, 1)}, sn \in (IF Deep THEN {FOne, D(1, 2)} ELSE {D(1, 2)}) }

Init == evs = <<>> /\ r \in Runs
Add == /\ Len(evs) < 2 /\ \E e \in EventSet : evs' = Append(evs, e) /\ UNCHANGED r
Spec == Init /\ [][Add]_vars

Leq(a, b) == FLe(a, FMul(b, FDec("1.000000000001")))
Rev(s) == [i \in 1..Len(s) |-> s[Len(s) + 1 - i]]
Higher(run) == [run EXCEPT !.thr = FAdd(run.thr, FOne)]
NoCut(run) == [run EXCEPT !.sunMoonCut = FALSE]
MoreThrown(run) == [run EXCEPT !.thrown = 2 * run.thrown]

PermutationInvariant == /\ FClose(Int(evs, r), Int(Rev(evs), r), FDec("1e-15"), FZero)
                        /\ FClose(IntGeo(evs, r), IntGeo(Rev(evs), r), FDec("1e-15"), FZero)
                        /\ NPassHi(evs, r) = NPassHi(Rev(evs), r)
ThresholdMonotone == Leq(Int(evs, Higher(r)), Int(evs, r)) /\ NPassHi(evs, Higher(r)) <= NPassHi(evs, r)
BoundedByGeo == Leq(Int(evs, r), FMul(Bshr, FMul(IntGeo(evs, r), FMul(r.specNorm, r.specWsum)))) \/ FLt(FOne, FZero)
NonNegative == FGe(Int(evs, r), FZero) /\ FGe(IntGeo(evs, r), FZero)
DarkOnlyRemoves == Leq(Int(evs, r), Int(evs, NoCut(r)))
DarkOpticalTargetOnly == (r.method = "Radio" \/ r.mode = "Diffuse") => Int(evs, r) = Int(evs, NoCut(r))
DividesByThrown == FClose(FMul(FTwo, Int(evs, MoreThrown(r))), Int(evs, r), FDec("1e-15"), FZero)
=============================================================================
