SPECIFICATION Spec
INVARIANT RoundTrip
CHECK_DEADLOCK FALSE
