SPECIFICATION Spec
INVARIANT CellTotal
INVARIANT RegimesExhaustive
CHECK_DEADLOCK FALSE
