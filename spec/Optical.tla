------------------------------ MODULE Optical ------------------------------
(***************************************************************************)
(* C08.  The optical signal chain around the Cherenkov kernel.              *)
(***************************************************************************)
EXTENDS Float64, Naturals

RefOrbit == FInt(525)                \* km: the kernel's reference orbit
DefaultAngleDeg == FDec("1.5")
InRange(alt) == FLe(FZero, alt) /\ FLe(alt, FInt(20))        \* decay altitudes that are simulated

(* distance along a straight line leaving the surface at emergence angle beta, from the surface to altitude z *)
Along(z, beta, R) == FSub(FSqrt(FAdd(FAdd(FSq(FMul(R, FSin(beta))), FMul(FMul(FTwo, R), z)), FSq(z))), FMul(R, FSin(beta)))
(* shower (at altitude z) to detector (at altitude Z) *)
(* altitude of the point at distance s along that line (law of cosines; compared in altitude, where it is well conditioned) *)
AltAt(s, beta, R) == FSub(FSqrt(FAdd(FAdd(FSq(s), FMul(FMul(FTwo, s), FMul(R, FSin(beta)))), FSq(R))), R)
Dist(z, Z, beta, R) == FSub(Along(Z, beta, R), Along(z, beta, R))
(* inverse-square scaling of the photon density from the reference orbit to a detector at altitude Z *)
ScaleFactor(z, Z, beta, R) == FSq(FDiv(Dist(z, RefOrbit, beta, R), Dist(z, Z, beta, R)))
(* emergence angles below 1 degree are treated as 1 degree by the kernel *)
KernelBeta(beta) == FMax(beta, FRadians(FOne))

PhotoElectrons(rho, area, qe) == FMul(FMul(rho, area), qe)

(* effective Cherenkov angle (degrees): widened when the signal exceeds twice the threshold *)
Enhance(r) == IF FGt(r, FTwo) THEN FMax(FOne, FSqrt(FMul(FTwo, FLn(r)))) ELSE FOne
ThetaEff(theta, pe, thr) == FMul(theta, Enhance(FDiv(pe, thr)))
CosThetaEff(theta, pe, thr) == FCos(FRadians(ThetaEff(theta, pe, thr)))
=============================================================================
