----------------------------- MODULE TraceRadio -----------------------------
(* Trace validation of the radio chain against Radio.tla (C20).                                                        *)
(*   band   {lo, hi, nfield, ant, noise}   number of field bins returned by the parametrisation; bin centres handed to  *)
(*                                          the antenna-voltage and noise functions by calculate_snr                     *)
(*   shower {alt, lenDec, ef1, ef3, snr1, snr3, snrN1, snrN4, perm}  one event of a batch evaluated with shower energy E *)
(*           and 3E (fixed random numbers), SNR with N and 4N antennas, and the same event inside a permuted batch      *)
EXTENDS TraceKit, Radio, Optical

AllFinite(s) == \A i \in 1..Len(s) : FIsFinite(s[i])
AllZero(s) == \A i \in 1..Len(s) : FEq(s[i], FZero)
(* 1e-9: the geomagnetic and Askaryan terms may cancel by a factor ~1e4, which amplifies rounding (5e-13 observed) *)
Scaled(a, b, k, ulps) == Len(a) = Len(b) /\ \A i \in 1..Len(a) : FClose(b[i], FMul(FInt(k), a[i]), FDec("1e-9"), FDec("1e-300"))

(* beyond C20's statement: the field is scaled linearly with the ratio of the shower-detector distances (reference orbit 525 km  *)
(* vs the configured altitude), and the ionospheric dispersion factor applies exactly when the detector is above 90 km, the        *)
(* ionosphere section is present with a non-negative TEC, and parameters exist for the band / TEC / TEC error                        *)
DistanceScale(alt, Z, beta, R) == FAbs(FDiv(Dist(alt, RefOrbit, beta, R), Dist(alt, Z, beta, R)))
IonBands == {<<30, 80>>, <<30, 300>>, <<300, 1000>>, <<200, 1200>>}
IonTECs == {1, 5, 10, 50, 100, 150}
IonApplies(e) == /\ FGt(e.Z, FInt(90)) /\ e.ionPresent /\ e.tecTimes10 >= 0
                 /\ <<e.lo, e.hi>> \in IonBands /\ (\E t \in IonTECs : e.tecTimes10 = 10 * t) /\ e.tecErrTimes10 <= 100

Check(e) ==
    CASE e.kind = "alt" ->
        Fails(<< <<"EXT: radio: field at detector altitude Z = field at the 525 km reference x distance ratio (linear)",
                   Len(e.efZ) = Len(e.efRef) /\
                   \A k \in 1..Len(e.efZ) : FClose(e.efZ[k], FMul(e.efRef[k], DistanceScale(e.alt, e.Z, e.beta, e.R)), FDec("1e-9"), FDec("1e-300"))>> >>)
      [] e.kind = "ion" ->
        Fails(<< <<"EXT: radio: without applicable ionosphere parameters the field is bit-identical to the ionosphere-free field",
                   IonApplies(e) \/ e.on = e.off>>,
                 <<"EXT: radio: applicable ionosphere parameters scale every bin by one positive factor (fixed TEC error draw)",
                   ~IonApplies(e) \/ (\A k \in 1..Len(e.on) : FEq(e.off[k], FZero) \/
                        (FGt(FDiv(e.on[k], e.off[k]), FZero) /\ FClose(FDiv(e.on[k], e.off[k]), e.ratio, FDec("1e-9"), FZero)))>>,
                 <<"EXT: radio: applicable ionosphere parameters change the field", ~IonApplies(e) \/ ~e.anyNonZero \/ e.on # e.off>> >>)
      [] e.kind = "band" ->
        Fails(<< <<"C20 number of field bins = number of 10 MHz centres inside the band", e.nfield = Cardinality(FieldBins(e.lo, e.hi))>>,
                 <<"C20 antenna-voltage bins = field bins (number and centre frequencies)", e.ant = SortedSeq(FieldBins(e.lo, e.hi))>>,
                 <<"C20 noise bins = field bins (number and centre frequencies)", e.noise = SortedSeq(FieldBins(e.lo, e.hi))>>,
                 <<"C20 the SNR is computed and finite for every event in every aligned band, whatever its width", e.snrOk>> >>)
      [] e.kind = "shower" ->
        Fails(<< <<"C20 field and SNR are finite for every event", AllFinite(e.ef1) /\ AllFinite(e.ef3) /\ FIsFinite(e.snr1) /\ FIsFinite(e.snrN4)>>,
                 <<"C20 decays outside [0, 10] km give exactly zero field",
                   (FLe(FZero, e.alt) /\ FLe(e.alt, FInt(10))) \/ (AllZero(e.ef1) /\ AllZero(e.ef3))>>,
                 <<"C20 field proportional to shower energy", ~AllFinite(e.ef1) \/ Scaled(e.ef1, e.ef3, 3, 4)>>,
                 <<"C20 SNR linear in the field", ~FIsFinite(e.snr1) \/ FUlps(e.snr3, FMul(FInt(3), e.snr1)) <= 16
                                                   \/ FClose(e.snr3, FMul(FInt(3), e.snr1), FDec("1e-9"), FDec("1e-300"))>>,
                 <<"C20 SNR proportional to the square root of the number of antennas",
                   ~FIsFinite(e.snrN1) \/ FClose(e.snrN4, FMul(FTwo, e.snrN1), FDec("1e-13"), FDec("1e-300"))>>,
                 <<"C20 independent of event order", e.perm = e.ef1>>,
                 <<"C20 SNR independent of event order and of the other events of the batch",
                   ~FIsFinite(e.snr1) \/ (FClose(e.snrPerm, e.snr1, FDec("1e-12"), FDec("1e-300")) /\ FClose(e.snrAlone, e.snr1, FDec("1e-12"), FDec("1e-300")))>> >>)
      [] OTHER -> <<"unknown event kind">>

TInit == TKInit
TNext == TKStep(Check)
TSpec == TInit /\ [][TNext]_tkvars
=============================================================================
