----------------------------- MODULE TraceRadio -----------------------------
(* Trace validation of the radio chain against Radio.tla (C20).                                                        *)
(*   band   {lo, hi, nfield, ant, noise}   number of field bins returned by the parametrisation; bin centres handed to  *)
(*                                          the antenna-voltage and noise functions by calculate_snr                     *)
(*   shower {alt, lenDec, ef1, ef3, snr1, snr3, snrN1, snrN4, perm}  one event of a batch evaluated with shower energy E *)
(*           and 3E (fixed random numbers), SNR with N and 4N antennas, and the same event inside a permuted batch      *)
EXTENDS TraceKit, Radio, Float64

AllFinite(s) == \A i \in 1..Len(s) : FIsFinite(s[i])
AllZero(s) == \A i \in 1..Len(s) : FEq(s[i], FZero)
(* 1e-9: the geomagnetic and Askaryan terms may cancel by a factor ~1e4, which amplifies rounding (5e-13 observed) *)
Scaled(a, b, k, ulps) == Len(a) = Len(b) /\ \A i \in 1..Len(a) : FClose(b[i], FMul(FInt(k), a[i]), FDec("1e-9"), FDec("1e-300"))

Check(e) ==
    CASE e.kind = "band" ->
        Fails(<< <<"C20 number of field bins = number of 10 MHz centres inside the band", e.nfield = Cardinality(FieldBins(e.lo, e.hi))>>,
                 <<"C20 antenna-voltage bins = field bins (number and centre frequencies)", e.ant = SortedSeq(FieldBins(e.lo, e.hi))>>,
                 <<"C20 noise bins = field bins (number and centre frequencies)", e.noise = SortedSeq(FieldBins(e.lo, e.hi))>> >>)
      [] e.kind = "shower" ->
        Fails(<< <<"C20 field and SNR are finite for every event", AllFinite(e.ef1) /\ AllFinite(e.ef3) /\ FIsFinite(e.snr1) /\ FIsFinite(e.snrN4)>>,
                 <<"C20 decays outside [0, 10] km give exactly zero field",
                   (FLe(FZero, e.alt) /\ FLe(e.alt, FInt(10))) \/ (AllZero(e.ef1) /\ AllZero(e.ef3))>>,
                 <<"C20 field proportional to shower energy", ~AllFinite(e.ef1) \/ Scaled(e.ef1, e.ef3, 3, 4)>>,
                 <<"C20 SNR linear in the field", ~FIsFinite(e.snr1) \/ FUlps(e.snr3, FMul(FInt(3), e.snr1)) <= 16
                                                   \/ FClose(e.snr3, FMul(FInt(3), e.snr1), FDec("1e-9"), FDec("1e-300"))>>,
                 <<"C20 SNR proportional to the square root of the number of antennas",
                   ~FIsFinite(e.snrN1) \/ FClose(e.snrN4, FMul(FTwo, e.snrN1), FDec("1e-13"), FDec("1e-300"))>>,
                 <<"C20 independent of event order", e.perm = e.ef1>> >>)
      [] OTHER -> <<"unknown event kind">>

TInit == TKInit
TNext == TKStep(Check)
TSpec == TInit /\ [][TNext]_tkvars
=============================================================================
