-------------------------- MODULE TraceNuSpaceSim --------------------------
(***************************************************************************)
(* Trace validation of compute() runs against NuSpaceSim.tla (C17, C14).    *)
(* Events, recorded by the instrumented results table:                      *)
(*   Begin {mode, optical, radio, writeStages}                              *)
(*   Mutate{kind, names, rows, dig, disk, cont}  one mutation of the table; *)
(*          cont = it belongs to the same writer call as the previous one;  *)
(*          file snapshot `disk' is read back from the output path BEFORE   *)
(*          the mutation, i.e. at the boundary that ends the previous one   *)
(*   End   {outcome, injected, disk, mem}   return / raise / process death  *)
(*   Begin {mode, optical, radio, writeStages, stale, disk0}: disk0 = the   *)
(*          output path as the run finds it (absent, or an earlier file)    *)
(* A snapshot is [present, cols, rows, dig, meta, metav]; dig / metav are   *)
(* tokens of bitwise digests of column data / header values.                *)
(***************************************************************************)
EXTENDS TraceKit, NuSpaceSim, Float64

VARIABLES dig,     \* column name -> digest token when it was added
          metav,   \* header keyword -> value token when it was added
          rows,    \* number of rows (survivors), -1 before the geometry stage
          burst,   \* names mutated so far by the writer call in progress (e.cont: this mutation belongs to the same call as the last)
          disk0    \* snapshot of the output path when the run began (a file left by an earlier run, or absent)
tvars == <<dig, metav, rows, burst, disk0>>
AbsentSnap == [present |-> FALSE, cols |-> <<>>, rows |-> 0, dig |-> <<>>, meta |-> <<>>, metav |-> <<>>]
SnapSame(a, b) == /\ a.present = b.present /\ a.cols = b.cols /\ a.dig = b.dig /\ a.rows = b.rows
                  /\ a.meta = b.meta /\ a.metav = b.metav

NoConfigs == {}

IdOf(e) == LET ids == {id \in BIds : Kind(id) = e.kind /\ Names(cfg, id) = e.names}
           IN IF ids = {} THEN "?" ELSE CHOOSE id \in ids : TRUE

(* A run without survivors may either return right after the geometry stage (what the code does) or   *)
(* carry on with empty arrays and produce every column with zero rows: C14 only asks for an empty but  *)
(* valid table.  So a mutation after an empty geometry stage is judged as in a run with survivors.      *)
Going == [cfg EXCEPT !.survivors = TRUE]
CanDoT(id) == /\ phase = "run" /\ id \in BIds /\ id \notin done
              /\ Gate(IF id = "Geom" THEN cfg ELSE Going, id)
              /\ Deps[id] \subseteq done

(* header values: <<"n", double>>, <<"s", token>> or <<"x", token>> (non-finite float).  A FITS card holds a float as at most 20 characters of *)
(* text (astropy truncates str(value)), so numbers on disk are compared at that precision.                  *)
(* A non-finite float (<<"x", token>>: NaN, +-inf - e.g. the ddof = 1 uncertainty of a run with ONE surviving trajectory) cannot *)
(* be held by a FITS header card at all (astropy omits the card): such a keyword may be missing from the file, every other one   *)
(* must be there.                                                                                                                *)
MetaEq(a, b) == \/ b[1] = "x"
                \/ /\ a[1] = b[1]
                   /\ IF a[1] = "n" THEN FClose(a[2], b[2], FDec("1e-13"), FZero) ELSE a[2] = b[2]
Unrepresentable == {k \in DOMAIN metav : metav[k][1] = "x"}
(* C17 speaks about the header values OF THE STAGES (the integral keywords of the boundary table).  Any other keyword (provenance a  *)
(* maintainer adds between two stages without a rewrite of its own) reaches the file with the next rewrite: it may lag, it may not    *)
(* be invented (a keyword on disk is a keyword of the table, with the table's value).                                                 *)
StageKeys == OptMetaKeys \cup RadMetaKeys
MetaKeysEq(onDisk, inMem) == onDisk \subseteq inMem /\ inMem \ onDisk \subseteq (Unrepresentable \cup (inMem \ StageKeys))

SeqOfFcn(f, names) == [i \in 1..Len(names) |-> f[names[i]]]

(* does a file snapshot equal the tracked in-memory table? *)
SnapIsMem(s) ==
    /\ s.present
    /\ s.cols = mem.cols
    /\ s.dig = SeqOfFcn(dig, mem.cols)
    /\ MetaKeysEq(Range(s.meta), mem.meta)
    /\ \A i \in 1..Len(s.meta) : s.meta[i] \in DOMAIN metav /\ MetaEq(s.metav[i], metav[s.meta[i]])
    /\ (mem.cols # <<>> => s.rows = rows)

(* inside a writer call (several mutations, one rewrite at its end) the file is the table as of the last completed boundary *)
SnapIsCommitted(s) ==
    LET cc == SelectSeq(mem.cols, LAMBDA c : c \notin burst) IN
    /\ s.present
    /\ s.cols = cc
    /\ s.dig = SeqOfFcn(dig, cc)
    /\ MetaKeysEq(Range(s.meta), mem.meta \ burst)
    /\ \A i \in 1..Len(s.meta) : s.meta[i] \in DOMAIN metav /\ MetaEq(s.metav[i], metav[s.meta[i]])

(* A stage may set its header keywords one by one and rewrite the file ONCE when it is done (NuSpaceSim!MutateMore): a header mutation   *)
(* continues the burst in progress when the hook says so (same writer call, by frame identity) or when the burst consists of unflushed *)
(* keywords of the same channel - the file snapshot taken before this mutation does not hold them yet.  The burst must be on disk      *)
(* before anything else happens: a column store, the return, or the next channel's keywords find it flushed or fail the clause.       *)
Unflushed(snap) == burst # {} /\ burst \subseteq StageKeys /\ Range(snap.meta) \cap burst = {}
Cont(e) == e.cont \/ (e.kind = "meta" /\ Unflushed(e.disk) /\ \A q \in burst : \A n \in Range(e.names) : SameChannel(q, n))
(* a run that FAILS while a burst is unflushed leaves the table as of the last completed boundary *)
EndInCall(e) == e.inWriter \/ (e.outcome # "return" /\ Unflushed(e.disk))

DiskClausesAt(s, inCall) ==
    IF cfg.writeStages
      THEN IF done = {} \/ (inCall /\ mem.meta \ burst = {} /\ SelectSeq(mem.cols, LAMBDA c : c \notin burst) = <<>>)
           THEN << <<"C17 nothing but an empty table (or the untouched file of an earlier run) is on disk before the first boundary",
                     ~s.present \/ (s.cols = <<>> /\ s.meta = <<>>) \/ (cfg.stale /\ SnapSame(s, disk0))>> >>
           ELSE IF inCall
           THEN << <<"C17 DiskIsCommitted: inside a writer call the file = table as of the last completed boundary", SnapIsCommitted(s)>> >>
           ELSE << <<"C17 DiskIsMemAtBoundary: file = table of all boundaries completed so far (names, order, data, header)",
                     SnapIsMem(s)>> >>
      ELSE << <<"C17 NoWriteWhenDisabled: without write_stages the simulation writes nothing (no file; a file of an earlier run stays as it was)",
                IF cfg.stale THEN SnapSame(s, disk0) ELSE ~s.present>> >>
DiskClauses(s) == DiskClausesAt(s, FALSE)

Check(e) ==
    CASE e.kind = "Begin" -> <<>>
      [] e.kind \in {"cols", "meta"} ->
            LET id == IdOf(e) IN
            Fails(DiskClausesAt(e.disk, Cont(e)) \o
                  (IF id = "?" THEN <<>>
                   ELSE << <<"C14 stage runs only when enabled for this configuration and after the stages it depends on",
                             CanDoT(id)>> >>) \o
                  (IF e.kind = "cols" /\ rows >= 0
                   THEN << <<"C14 every column has one row per surviving trajectory", e.rows = rows>> >> ELSE <<>>))
      [] e.kind = "End" ->
            (* e.inWriter: the run failed INSIDE a writer call, while the table was being converted for the rewrite: the file is still the   *)
            (* table as of the last completed boundary                                                                                   *)
            Fails(DiskClausesAt(e.disk, EndInCall(e)) \o
                  << <<"C14 no exception unless a fault was injected", e.outcome = "return" \/ e.injected>>,
                     <<"C14 returned table = the table built by the stages; columns unchanged since they were stored",
                       e.outcome # "return" \/
                       (e.mem.cols = mem.cols /\ e.mem.dig = SeqOfFcn(dig, mem.cols) /\ Range(e.mem.meta) = mem.meta)>>,
                     <<"C14 all stages enabled for the configuration completed before return",
                       e.outcome # "return" \/ AllDone>> >>)
      [] OTHER -> <<"unknown event kind">>

Effect(e) ==
    CASE e.kind = "Begin" ->
            /\ cfg' = [mode |-> e.mode, optical |-> e.optical, radio |-> e.radio,
                       writeStages |-> e.writeStages, survivors |-> TRUE, stale |-> e.stale]
            /\ done' = {} /\ mem' = EmptyTable /\ pending' = {} /\ phase' = "run"
            /\ disk' = [present |-> e.disk0.present, cols |-> e.disk0.cols, meta |-> Range(e.disk0.meta)]
            /\ dig' = <<>> /\ metav' = <<>> /\ rows' = -1 /\ burst' = {} /\ disk0' = e.disk0
      [] e.kind = "cols" ->
            LET id == IdOf(e) IN
            /\ mem' = [mem EXCEPT !.cols = @ \o e.names]
            /\ done' = IF id = "?" THEN done ELSE done \cup {id}
            /\ dig' = [n \in DOMAIN dig \cup Range(e.names) |->
                          IF n \in DOMAIN dig THEN dig[n]
                          ELSE e.dig[CHOOSE i \in 1..Len(e.names) : e.names[i] = n]]
            /\ rows' = IF rows < 0 THEN e.rows ELSE rows
            /\ cfg' = IF id = "Geom" THEN [cfg EXCEPT !.survivors = e.rows > 0] ELSE IF id = "?" THEN cfg ELSE Going
            /\ disk' = [present |-> e.disk.present, cols |-> e.disk.cols, meta |-> Range(e.disk.meta)]
            /\ burst' = (IF Cont(e) THEN burst ELSE {}) \cup Range(e.names)
            /\ UNCHANGED <<metav, pending, phase, disk0>>
      [] e.kind = "meta" ->
            LET id == IdOf(e) IN
            /\ mem' = [mem EXCEPT !.meta = @ \cup Range(e.names)]
            /\ done' = IF id = "?" THEN done ELSE done \cup {id}
            /\ metav' = [n \in DOMAIN metav \cup Range(e.names) |->
                          IF n \in Range(e.names) THEN e.dig[CHOOSE i \in 1..Len(e.names) : e.names[i] = n]
                          ELSE metav[n]]
            /\ disk' = [present |-> e.disk.present, cols |-> e.disk.cols, meta |-> Range(e.disk.meta)]
            /\ cfg' = IF id = "?" THEN cfg ELSE Going       \* a keyword no stage of the model writes says nothing about the stages
            /\ burst' = (IF Cont(e) THEN burst ELSE {}) \cup Range(e.names)
            /\ UNCHANGED <<dig, rows, pending, phase, disk0>>
      [] e.kind = "End" ->
            /\ phase' = (IF e.outcome = "return" THEN "returned" ELSE IF e.outcome = "raise" THEN "failed" ELSE "dead")
            /\ disk' = [present |-> e.disk.present, cols |-> e.disk.cols, meta |-> Range(e.disk.meta)]
            /\ UNCHANGED <<cfg, done, mem, pending, dig, metav, rows, burst, disk0>>
      [] OTHER -> UNCHANGED <<vars, tvars>>

(* invariants of NuSpaceSim.tla evaluated in the state after every event *)
Post == Fails(<< <<"inv FinalStructure (C14: the columns of every enabled stage, once each, and the integral keywords of every enabled channel; empty run = geometry columns)",
                   FinalStructureAtLeast'>>,
                 <<"EXT: the returned table has exactly the columns / header keywords of the enabled stages, nothing else",
                   FinalStructure'>>,
                 <<"inv DiskIsPrefix (C17)", DiskIsPrefix'>>,
                 <<"inv NoWriteWhenDisabled (C17)", NoWriteWhenDisabled'>> >>)
(* (StaleReplaced is an invariant of the model; on traces the file snapshot of an event is the one read BEFORE its mutation, so a file *)
(* of an earlier run that survives the first boundary fails DiskIsMemAtBoundary at the next event / at End)                           *)

TInit == /\ TKInit
         /\ cfg = [mode |-> "Diffuse", optical |-> FALSE, radio |-> FALSE, writeStages |-> FALSE, survivors |-> TRUE, stale |-> FALSE]
         /\ done = {} /\ mem = EmptyTable /\ disk = Absent /\ pending = {} /\ phase = "run"
         /\ dig = <<>> /\ metav = <<>> /\ rows = -1 /\ burst = {} /\ disk0 = AbsentSnap
TNext == TKAdvance /\ Effect(Ev) /\ TKRecord(Check(Ev) \o Post)
TSpec == TInit /\ [][TNext]_<<tkvars, vars, tvars>>
=============================================================================
