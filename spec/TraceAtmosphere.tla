--------------------------- MODULE TraceAtmosphere ---------------------------
(* Trace validation of the two shipped copies of the standard-atmosphere        *)
(* functions against StdAtmosphere.tla (C19).                                    *)
(*   pz {z, pa, po, back, ser}   pressure from altitude: atmosphere copy, optical *)
(*                               copy, and the copy's own altitude(pressure(z))   *)
(*   zp {P, za, zo, back}        altitude from pressure, and pressure(altitude(P)) *)
EXTENDS TraceKit, StdAtmosphere

VARIABLE prev       \* <<ser, z, P>> of the last pz event (near-monotonicity along an ascending series)

Check(e) ==
    CASE e.kind = "pz" ->
        IF FEq(e.z, FInf)
        THEN Fails(<< <<"C19 infinite altitude maps to zero pressure", e.pa = FZero /\ e.po = FZero>> >>)
        ELSE Fails(<< <<"C19 pressure(z) = standard atmosphere", FClose(e.pa, Pressure(e.z), FDec("1e-12"), FZero)>>,
                      <<"C19 the two shipped copies agree bit for bit", e.pa = e.po>>,
                      <<"C19 pressure is positive", FGt(e.pa, FZero)>>,
                      <<"C19 altitude(pressure(z)) = z within 1e-6 km", FLe(FAbs(FSub(e.back, e.z)), FDec("1e-6"))>>,
                      <<"C19 pressure non-increasing with altitude up to steps of 3e-7 relative",
                        ~(prev # <<>> /\ prev[1] = e.ser /\ FLe(prev[2], e.z)) \/ FLe(e.pa, FMul(prev[3], FDec("1.0000003")))>> >>)
      [] e.kind = "zp" ->
        IF FLe(e.P, FZero)
        THEN Fails(<< <<"C19 zero pressure maps to infinite altitude", e.za = FInf /\ e.zo = FInf>> >>)
        ELSE Fails(<< <<"C19 altitude(P) = standard atmosphere", FClose(e.za, Altitude(e.P), FDec("1e-11"), FDec("1e-11"))>>,
                      <<"C19 the two shipped copies agree bit for bit", e.za = e.zo>>,
                      <<"C19 pressure(altitude(P)) = P within 1e-6 relative", FLe(FAbs(FSub(e.back, e.P)), FMul(FDec("1e-6"), e.P))>> >>)
      [] OTHER -> <<"unknown event kind">>

TInit == TKInit /\ prev = <<>>
TNext == /\ TKAdvance
         /\ prev' = IF Ev.kind = "pz" THEN <<Ev.ser, Ev.z, Ev.pa>> ELSE prev
         /\ TKRecord(Check(Ev))
TSpec == TInit /\ [][TNext]_<<tkvars, prev>>
=============================================================================
