------------------------------ MODULE TraceGrid ------------------------------
(***************************************************************************)
(* Trace validation for C18: grid files (GridFile.tla register semantics),  *)
(* interpolated slices and row-wise interpolation (GridInterp.tla).         *)
(*   Write {path, grid}      NssGrid.write                                  *)
(*   Read  {path, grid}      NssGrid.read of that path                      *)
(*   Slice {grid, axis, x, res}   grid_slice_interp                          *)
(*   Interp{row, ys, x, y}   one row of vec_1d_interp                        *)
(* grid = [shape, names (code points), axes (seq of seq of doubles),         *)
(*         data (flat, C order, doubles), kind ("f"/"i")]                    *)
(***************************************************************************)
EXTENDS TraceKit, GridInterp, FiniteSets

VARIABLE files
Paths == {"p1", "p2", "p3", "p4"}
Empty == [present |-> FALSE, g |-> <<>>]

SameGrid(a, b) == /\ a.shape = b.shape /\ a.names = b.names /\ a.axes = b.axes /\ a.data = b.data

Prod(s) == LET P[i \in 0..Len(s)] == IF i = 0 THEN 1 ELSE P[i - 1] * s[i] IN P[Len(s)]
Stride(shape, k) == Prod(SubSeq(shape, k + 1, Len(shape)))
(* flat (1-based) position of the multi-index idx (1-based components) *)
Flat(shape, idx) == 1 + LET S[k \in 0..Len(shape)] == IF k = 0 THEN 0 ELSE S[k - 1] + (idx[k] - 1) * Stride(shape, k)
                        IN S[Len(shape)]
Drop(s, a) == SubSeq(s, 1, a - 1) \o SubSeq(s, a + 1, Len(s))
Insert(s, a, v) == SubSeq(s, 1, a - 1) \o <<v>> \o SubSeq(s, a, Len(s))
(* multi-index of flat position n in a grid of the given shape *)
ModN(a, b) == a - b * (a \div b)
Unflat(shape, n) == [k \in 1..Len(shape) |-> ModN((n - 1) \div Stride(shape, k), shape[k]) + 1]

(* C18: the slice at coordinate x along axis a: the stored sub-grid at nodes, the linear blend of the two  *)
(* neighbouring sub-grids in between                                                                        *)
SliceOK(e) ==
    LET g == e.grid  a == e.axis  ax == g.axes[a]
        i == Cell(ax, e.x)  t == Frac(ax, i, e.x)
        rshape == Drop(g.shape, a)
    IN /\ e.res.shape = rshape
       /\ e.res.names = Drop(g.names, a)
       /\ e.res.axes = Drop(g.axes, a)
       /\ Len(e.res.data) = Prod(rshape)
       /\ \A n \in 1..Prod(rshape) :
             LET idx == Unflat(rshape, n)
                 lo == g.data[Flat(g.shape, Insert(idx, a, i))]
                 hi == g.data[Flat(g.shape, Insert(idx, a, i + 1))]
             IN (* the blend is computed to a few ulps of its LARGER operand: next to a node whose value is 0 the result is tiny against the *)
                (* neighbour's 3e20 and carries that neighbour's rounding                                                               *)
                \/ FClose(e.res.data[n], Lerp(lo, hi, t), FDec("1e-14"), FDec("1e-300"))
                \/ FLe(FAbs(FSub(e.res.data[n], Lerp(lo, hi, t))), FMul(FDec("1e-13"), FMax(FAbs(lo), FAbs(hi))))
                /\ (e.x = ax[i] => e.res.data[n] = lo) /\ (e.x = ax[i + 1] => e.res.data[n] = hi)

Check(e) ==
    CASE e.kind = "Write" -> <<>>
      [] e.kind = "Read" ->
           Fails(<< <<"C18 the file read back equals the grid written (data, axes, axis names, shape)",
                      files[e.path].present /\ SameGrid(files[e.path].g, e.grid)>> >>)
      [] e.kind = "Slice" -> Fails(<< <<"C18 slice = stored sub-grid at nodes / linear blend of neighbours in between", SliceOK(e)>> >>)
      [] e.kind = "Interp" ->
           Fails(<< <<"C18 row-wise interpolation = ordinary piecewise-linear interpolation on a non-decreasing row",
                      FClose(e.y, PWLinear(e.row, e.ys, e.x), FDec("1e-13"), FDec("1e-13"))>> >>)
      [] OTHER -> <<"unknown event kind">>

TInit == TKInit /\ files = [p \in Paths |-> Empty]
TNext == /\ TKAdvance
         /\ files' = IF Ev.kind = "Write" THEN [files EXCEPT ![Ev.path] = [present |-> TRUE, g |-> Ev.grid]] ELSE files
         /\ TKRecord(Check(Ev))
TSpec == TInit /\ [][TNext]_<<tkvars, files>>
=============================================================================
