SPECIFICATION Spec
CONSTANT Configs <- MCFreshConfigs
INVARIANT TypeOK
INVARIANT DiskIsMemAtBoundary
INVARIANT DiskIsPrefix
INVARIANT DiskIsCommitted
INVARIANT NoWriteWhenDisabled
INVARIANT StaleReplaced
INVARIANT FinalStructure
PROPERTY FileOnlyGrows
