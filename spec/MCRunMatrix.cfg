SPECIFICATION MCSpec
CONSTANT Leaky = FALSE
INVARIANT InvR
INVARIANT InvIOpt
INVARIANT InvIRad
CONSTRAINT Bound
CHECK_DEADLOCK FALSE
