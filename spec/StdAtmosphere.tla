--------------------------- MODULE StdAtmosphere ---------------------------
(***************************************************************************)
(* C19.  A layered standard atmosphere (1976 US Standard Atmosphere below   *)
(* 86 km, extended upward by its last isothermal layer): layers given by    *)
(* geopotential base height (km), lapse rate (K/km), base temperature (K)   *)
(* and base pressure (Pa); geometric <-> geopotential altitude on a sphere. *)
(* Also used by Clouds.tla (cloud-top pressure -> altitude).                *)
(***************************************************************************)
EXTENDS Float64, Naturals, Sequences, Json, IOUtils

(* The layer table is DATA of the implementation (nuspacesim.constants), exported by the harness to the JSON   *)
(* file named by ATM_FILE: C19 is about the two functions being mutual inverses on whatever table is shipped, *)
(* and about the size of the steps the table introduces -- not about the numerical values of the constants.   *)
Atm == JsonDeserialize(IOEnv.ATM_FILE)
RE  == Atm.re
GMR == Atm.gmr
Hb  == Atm.hb          \* geopotential base heights (km), 8 layers
Lb  == Atm.lb          \* lapse rates (K/km)
Tb  == Atm.tb          \* base temperatures (K)
Pb  == Atm.pb          \* base pressures (Pa)
P0  == Pb[1]

Geopotential(z) == FDiv(FMul(z, RE), FAdd(z, RE))
Geometric(h)    == FDiv(FMul(RE, h), FSub(RE, h))

(* layer containing geopotential height h: the last base at or below it (the lowest layer is extended downward) *)
LayerOfH(h) == IF FLt(h, Hb[1]) THEN 1 ELSE CHOOSE k \in 1..8 : FLe(Hb[k], h) /\ (k = 8 \/ FLt(h, Hb[k + 1]))
(* layer containing pressure P: the last base pressure at or above it *)
LayerOfP(P) == IF FGt(P, Pb[1]) THEN 1 ELSE CHOOSE k \in 1..8 : FGe(Pb[k], P) /\ (k = 8 \/ FLt(Pb[k + 1], P))

PressureAtH(h) ==
    LET k == LayerOfH(h)  dh == FSub(h, Hb[k]) IN
    IF FEq(Lb[k], FZero)
      THEN FMul(Pb[k], FExp(FMul(FDiv(FNeg(GMR), Tb[k]), dh)))
      ELSE FMul(Pb[k], FPow(FDiv(Tb[k], FAdd(Tb[k], FMul(Lb[k], dh))), FDiv(GMR, Lb[k])))
Pressure(z) == IF FEq(z, FInf) THEN FZero ELSE PressureAtH(Geopotential(z))

HOfPressure(P) ==
    LET k == LayerOfP(P) IN
    IF FEq(Lb[k], FZero)
      THEN FAdd(Hb[k], FMul(FDiv(Tb[k], GMR), FLn(FDiv(Pb[k], P))))
      ELSE FAdd(Hb[k], FMul(FDiv(Tb[k], Lb[k]), FSub(FPow(FDiv(Pb[k], P), FDiv(Lb[k], GMR)), FOne)))
Altitude(P) == IF FLe(P, FZero) THEN FInf ELSE Geometric(HOfPressure(P))

(* the table is sound: bases ascend, base pressures descend, and the pressure computed from the layer below   *)
(* meets the tabulated base pressure of the next layer up to a step of 3e-7 relative                           *)
TableSound == /\ Len(Hb) = 8 /\ Len(Lb) = 8 /\ Len(Tb) = 8 /\ Len(Pb) = 8
              /\ \A k \in 1..7 : FLt(Hb[k], Hb[k + 1]) /\ FGt(Pb[k], Pb[k + 1]) /\ FGt(Pb[k + 1], FZero)
              /\ \A k \in 1..7 :
                    LET dh == FSub(Hb[k + 1], Hb[k])
                        below == IF FEq(Lb[k], FZero)
                                 THEN FMul(Pb[k], FExp(FMul(FDiv(FNeg(GMR), Tb[k]), dh)))
                                 ELSE FMul(Pb[k], FPow(FDiv(Tb[k], FAdd(Tb[k], FMul(Lb[k], dh))), FDiv(GMR, Lb[k])))
                    IN FClose(below, Pb[k + 1], FDec("3e-7"), FZero)
(* geometric altitude of layer base k *)
ZBase(k) == Geometric(Hb[k])
=============================================================================
