---------------------------- MODULE StageHistory ----------------------------
(***************************************************************************)
(* C11.  A per-event stage is a service WITHOUT state: with fixed random    *)
(* numbers the output at a position depends only on the event at that       *)
(* position.  Permutation-equivariance, split/concatenate-invariance and    *)
(* repeat-determinism are all instances of that, so the specification keeps *)
(* one memo table (event id -> output token) per stage; a call is legal iff *)
(* every position's output agrees with the memo (or the event is new) and   *)
(* the caller's input arrays are intact afterwards.                         *)
(***************************************************************************)
EXTENDS Naturals, Sequences, FiniteSets

CONSTANTS Ids,        \* event ids
          MaxLen,     \* longest batch
          MaxCalls    \* longest history

Unknown == 0          \* output tokens are positive integers

VARIABLES memo,       \* id -> token | Unknown
          hist        \* sequence of batches called so far (sequence of sequences of ids)

vars == <<memo, hist>>

Batches == UNION {[1..n -> Ids] : n \in 1..MaxLen}

(* the pure function the stage implements (uninterpreted, injective on ids) *)
F(id) == id + 100

Init == memo = [i \in Ids |-> Unknown] /\ hist = <<>>

(* the memo after the call: an event seen for the first time takes the output of its first position *)
NewMemo(batch, outs) ==
    [i \in Ids |-> IF memo[i] # Unknown THEN memo[i]
                   ELSE IF \E j \in 1..Len(batch) : batch[j] = i
                        THEN outs[CHOOSE j \in 1..Len(batch) : batch[j] = i /\ \A k \in 1..(j-1) : batch[k] # i]
                        ELSE Unknown]

(* every position agrees with what is (now) known about its event: covers earlier calls and repeated  *)
(* events inside the batch; linear in the batch length                                                 *)
CallGuard(batch, outs, intact) ==
    /\ intact
    /\ Len(outs) = Len(batch)
    /\ LET nm == NewMemo(batch, outs) IN \A j \in 1..Len(batch) : outs[j] = nm[batch[j]]
CallEffect(batch, outs) ==
    /\ memo' = NewMemo(batch, outs)
    /\ hist' = Append(hist, batch)

Call(batch) == /\ Len(hist) < MaxCalls
               /\ LET outs == [j \in 1..Len(batch) |-> F(batch[j])] IN
                  CallGuard(batch, outs, TRUE) /\ CallEffect(batch, outs)

Next == \E b \in Batches : Call(b)
Spec == Init /\ [][Next]_vars

MemoIsFunctionOfEvent == \A i \in Ids : memo[i] \in {Unknown, F(i)}
=============================================================================
