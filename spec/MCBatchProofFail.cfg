SPECIFICATION Spec
CONSTANT N <- MCN
CONSTANT NP <- MCNP
CONSTANT Off <- MCOff
CONSTANT W <- MCW
CONSTANT FailP <- OneFail
INVARIANT Inv
INVARIANT Safe
PROPERTY BatchSafety
CHECK_DEADLOCK FALSE
