---------------------------- MODULE MCRunMatrix ----------------------------
(* Small-scope model of RunMatrix: an abstract simulator whose table is a    *)
(* function of (base, seed, switches) and in which the optical stage may or  *)
(* may not consume random numbers (Leaky): TLC shows the three invariants    *)
(* hold for the isolated design and produces a counterexample for the leaky  *)
(* one, so the invariants are not vacuous.                                   *)
EXTENDS RunMatrix, TLC
CONSTANT Leaky
Seeds == {1, 2}
Scheds == {"sync", "threads"}
(* digest tokens: common columns depend on seed; radio columns depend on the seed and, if the optical  *)
(* stage leaks random draws, on whether optical ran                                                      *)
Table(seed, sched, optical, radio) ==
    LET cols == <<"beta_rad">> \o (IF optical THEN <<"numPEs">> ELSE <<>>) \o (IF radio THEN <<"EFields">> ELSE <<>>)
        tok(c) == CASE c = "beta_rad" -> seed
                    [] c = "numPEs" -> 10 + seed
                    [] c = "EFields" -> 20 + seed + (IF Leaky /\ optical THEN 100 ELSE 0)
    IN [base |-> "b", seed |-> seed, sched |-> sched, optical |-> optical, radio |-> radio,
        cols |-> cols, dig |-> [i \in 1..Len(cols) |-> tok(cols[i])], rows |-> 3,
        meta |-> (IF optical THEN <<"OMCINT">> ELSE <<>>) \o (IF radio THEN <<"RMCINT">> ELSE <<>>),
        metav |-> (IF optical THEN <<30 + seed>> ELSE <<>>) \o (IF radio THEN <<40 + seed + (IF Leaky /\ optical THEN 100 ELSE 0)>> ELSE <<>>)]
MCNext == \E s \in Seeds, sc \in Scheds, o \in BOOLEAN, r \in BOOLEAN : Record(Table(s, sc, o, r))
MCSpec == Init /\ [][MCNext]_runs
Bound == Cardinality(runs) <= 4
=============================================================================
