SPECIFICATION TSpec
POSTCONDITION CAccepted
CHECK_DEADLOCK FALSE
