---------------------------- MODULE TraceSelfTest ----------------------------
(* Self-test of the Float64 override: every event is <<op, args, expected>>  *)
(* computed by numpy; TLC must agree to within `ulps' units in the last      *)
(* place.  Also the smoke test of TraceKit.                                   *)
EXTENDS TraceKit, Float64, Integers

Apply(op, a) ==
    CASE op = "add"  -> FAdd(a[1], a[2])  [] op = "sub" -> FSub(a[1], a[2])
      [] op = "mul"  -> FMul(a[1], a[2])  [] op = "div" -> FDiv(a[1], a[2])
      [] op = "neg"  -> FNeg(a[1])        [] op = "abs" -> FAbs(a[1])
      [] op = "sqrt" -> FSqrt(a[1])       [] op = "cbrt" -> FCbrt(a[1])
      [] op = "expm1" -> FExpm1(a[1])     [] op = "log1p" -> FLog1p(a[1])
      [] op = "exp"  -> FExp(a[1])        [] op = "ln"  -> FLn(a[1])
      [] op = "log10" -> FLog10(a[1])     [] op = "pow" -> FPow(a[1], a[2])
      [] op = "sin"  -> FSin(a[1])        [] op = "cos" -> FCos(a[1])
      [] op = "tan"  -> FTan(a[1])        [] op = "asin" -> FAsin(a[1])
      [] op = "acos" -> FAcos(a[1])       [] op = "atan" -> FAtan(a[1])
      [] op = "atan2" -> FAtan2(a[1], a[2]) [] op = "hypot" -> FHypot(a[1], a[2])
      [] op = "floor" -> FFloor(a[1])     [] op = "min" -> FMin(a[1], a[2])
      [] op = "max"  -> FMax(a[1], a[2])  [] op = "mod" -> FMod(a[1], a[2])
      [] op = "f32"  -> F32(a[1])         [] op = "nextup" -> FNextUp(a[1])
      [] op = "nextdown" -> FNextDown(a[1])
      [] op = "sum"  -> FSum(a)
      [] op = "radians" -> FRadians(a[1]) [] op = "degrees" -> FDegrees(a[1])
      [] op = "dec"  -> FDec(a[1])
      [] op = "rat"  -> FRat(a[1], a[2])

ApplyB(op, a) ==
    CASE op = "lt" -> FLt(a[1], a[2]) [] op = "le" -> FLe(a[1], a[2])
      [] op = "eq" -> FEq(a[1], a[2]) [] op = "finite" -> FIsFinite(a[1])
      [] op = "nan" -> FIsNaN(a[1])
      [] op = "close" -> FClose(a[1], a[2], a[3], a[4])

Check(e) ==
    IF e.kind = "num"
      THEN Fails(<< <<e.op, FUlps(Apply(e.op, e.args), e.want) <= e.ulps>> >>)
    ELSE IF e.kind = "bool"
      THEN Fails(<< <<e.op, ApplyB(e.op, e.args) = e.want>> >>)
    ELSE IF e.kind = "int"
      THEN Fails(<< <<e.op, (IF e.op = "toint" THEN FToInt(e.args[1]) ELSE FUlps(e.args[1], e.args[2])) = e.want>> >>)
    ELSE <<"unknown kind">>

Init == TKInit
Next == TKStep(Check)
Spec == Init /\ [][Next]_tkvars
=============================================================================
