-------------------------- MODULE TraceAcceptance --------------------------
(* Trace validation of acceptance integrals against Acceptance.tla (C03).     *)
(* One event = one mcintegral evaluation: either a direct call on a thrown    *)
(* geometry object with constructed trigger arrays (equality cases included)  *)
(* or the header values of a finished run with its table columns.             *)
(*   [run, evs, out : [int, geo, npass], extra]                               *)
EXTENDS TraceKit, Acceptance

Rel == FDec("1e-9")

Check(e) ==
    LET r == e.run
        evs == e.evs
        sInt == Int(evs, r)
        sGeo == IntGeo(evs, r)
    IN Fails(<<
        <<"C03 stored columns are mutually consistent (cos of theta column = cone-cut cosine)",
          \A i \in 1..Len(evs) : ColumnsConsistent(evs[i], r)>>,
        <<"C03 geometry-only integral = sum of in-cone weights / thrown (x mcnorm)",
          FClose(e.out.geo, sGeo, Rel, FDec("1e-300"))>>,
        <<"C03 integral = sum of weight x 0.826 x pexit over triggered, in-cone (dark-sky) events / thrown",
          FClose(e.out.int, sInt, Rel, FDec("1e-300"))>>,
        <<"C03 number of passing events", NPassLo(evs, r) <= e.out.npass /\ e.out.npass <= NPassHi(evs, r)>>,
        <<"C03 per-event contribution column (tmcintopt / tmcintrad) = that event's term",
          ~e.hasContrib \/ \A i \in 1..Len(evs) : FClose(evs[i].contrib, FullTerm(evs[i], r), Rel, FDec("1e-300"))>>,
        <<"C03 integral never exceeds 0.826 x geometric integral (spectrum factors multiply to 1)",
          ~e.unitSpectrum \/ FLe(e.out.int, FMul(FMul(Bshr, e.out.geo), FDec("1.000000001")))>>
      >>)

TInit == TKInit
TNext == TKStep(Check)
TSpec == TInit /\ [][TNext]_tkvars
=============================================================================
