SPECIFICATION TSpec
CONSTANT Names = {}
CONSTANT Forms = {}
POSTCONDITION TKAccepted
CHECK_DEADLOCK FALSE
