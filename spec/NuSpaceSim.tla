----------------------------- MODULE NuSpaceSim -----------------------------
(***************************************************************************)
(* The simulation pipeline (compute()): stages add columns / header values  *)
(* to the in-memory results table through the staged writer; with           *)
(* writeStages every such mutation is followed by a rewrite of the output   *)
(* file.  A stage is enabled by its DATA dependencies (a partial order):    *)
(* the code's fixed order is one linearisation, and any other linearisation *)
(* is accepted as long as dependencies are respected.                       *)
(*                                                                          *)
(* One boundary = one staged-writer call = one mutation of the table.       *)
(* Properties C14 (structure of the final table for every configuration,    *)
(* early return) and C17 (the file is the table as of the last completed    *)
(* boundary: at every boundary, after a stage failure, after process death; *)
(* nothing is written without writeStages) are invariants of this module.   *)
(***************************************************************************)
EXTENDS Naturals, Sequences, FiniteSets, SequencesExt

CONSTANT Configs     \* set of [mode, optical, radio, writeStages, survivors, stale]   (stale: a file of an EARLIER run already sits at the output path)

(* ---- the boundary table (DESIGN Appendix B) ------------------------------ *)
OptMetaKeys == {"OMCINT", "OMCINTGO", "ONEVPASS", "OMCINTUN"}
RadMetaKeys == {"RMCINT", "RMCINTGO", "RNEVPASS", "RMCINTUN"}
ColIds  == {"Geom", "InitPos", "Spectrum", "Taus", "Decay", "OptEAS", "OptMCcol", "RadioEAS", "RadMCcol"}
BIds    == ColIds \cup OptMetaKeys \cup RadMetaKeys

GeomCols(c) == IF c.mode = "Target" THEN <<"beta_rad", "theta_rad", "path_len", "times">>
                                    ELSE <<"beta_rad", "theta_rad", "path_len">>

Kind(id) == IF id \in ColIds THEN "cols" ELSE "meta"

Names(c, id) ==
    CASE id = "Geom"     -> GeomCols(c)
      [] id = "InitPos"  -> <<"init_lat", "init_lon">>
      [] id = "Spectrum" -> <<"log_e_nu">>
      [] id = "Taus"     -> <<"tauBeta", "tauLorentz", "tauEnergy", "showerEnergy", "tauExitProb">>
      [] id = "Decay"    -> <<"altDec", "lenDec">>
      [] id = "OptEAS"   -> <<"numPEs", "costhetaChEff">>
      [] id = "OptMCcol" -> <<"tmcintopt">>
      [] id = "RadioEAS" -> <<"EFields">>
      [] id = "RadMCcol" -> <<"tmcintrad">>
      [] OTHER           -> <<id>>          \* a header keyword is its own boundary

(* data dependencies: what a stage reads must have been produced *)
Deps == [id \in BIds |->
    CASE id = "Geom"     -> {}
      [] id = "InitPos"  -> {"Geom"}
      [] id = "Spectrum" -> {"Geom"}
      [] id = "Taus"     -> {"Geom", "Spectrum"}
      [] id = "Decay"    -> {"Geom", "Taus"}
      [] id = "OptEAS"   -> {"Geom", "Taus", "Decay", "InitPos"}
      [] id = "RadioEAS" -> {"Geom", "Taus", "Decay"}
      [] id \in OptMetaKeys \cup {"OptMCcol"} -> {"OptEAS", "Taus", "Decay", "Spectrum"}
      [] id \in RadMetaKeys \cup {"RadMCcol"} -> {"RadioEAS", "Taus", "Decay", "Spectrum"}]

(* which boundaries a configuration performs; nothing after the geometry when no trajectory survives *)
Gate(c, id) ==
    CASE id = "Geom" -> TRUE
      [] id \in {"InitPos", "Spectrum", "Taus", "Decay"} -> c.survivors
      [] id = "OptEAS" \/ id \in OptMetaKeys -> c.survivors /\ c.optical
      [] id = "OptMCcol" -> c.survivors /\ c.optical /\ c.mode = "Target"
      [] id = "RadioEAS" \/ id \in RadMetaKeys -> c.survivors /\ c.radio
      [] id = "RadMCcol" -> c.survivors /\ c.radio /\ c.mode = "Target"

Gated(c)    == {id \in BIds : Gate(c, id)}
ExpCols(c)  == UNION {Range(Names(c, id)) : id \in Gated(c) \cap ColIds}
ExpMeta(c)  == Gated(c) \ ColIds
NBoundaries(c) == Cardinality(Gated(c))

(* ---- state ----------------------------------------------------------------- *)
VARIABLES cfg,
          done,      \* set of boundary ids completed (mutation applied AND file rewritten if enabled)
          mem,       \* in-memory table: [cols |-> sequence of column names, meta |-> set of header keywords]
          disk,      \* the output file: [present |-> FALSE, ...] or a table of the same shape
          pending,   \* ids whose mutation is applied but whose rewrite is not (one writer call; several header keywords at most)
          phase      \* "run" | "returned" | "failed" | "dead"

vars == <<cfg, done, mem, disk, pending, phase>>

EmptyTable == [cols |-> <<>>, meta |-> {}]
Absent     == [present |-> FALSE, cols |-> <<>>, meta |-> {}]
OnDisk(t)  == [present |-> TRUE, cols |-> t.cols, meta |-> t.meta]
(* history: the output path may already hold the file of an earlier run (other columns, other header); the simulation replaces it *)
(* at its first boundary when it writes stages, and leaves it alone when it does not                                              *)
Stale      == [present |-> TRUE, cols |-> <<"stale_col">>, meta |-> {"STALE"}]
Disk0(c)   == IF c.stale THEN Stale ELSE Absent

Init == /\ cfg \in Configs
        /\ done = {} /\ mem = EmptyTable /\ disk = Disk0(cfg) /\ pending = {} /\ phase = "run"

CanDo(id) == /\ phase = "run" /\ pending = {}
             /\ id \in BIds /\ Gate(cfg, id) /\ id \notin done
             /\ Deps[id] \subseteq done

(* staged writer, first half: mutate the in-memory table *)
MutateEffect(id) ==
    /\ mem' = IF Kind(id) = "cols" THEN [mem EXCEPT !.cols = @ \o Names(cfg, id)]
                                   ELSE [mem EXCEPT !.meta = @ \cup {id}]
    /\ pending' = pending \cup {id}
    /\ UNCHANGED <<cfg, done, disk, phase>>
Mutate(id) == CanDo(id) /\ MutateEffect(id)

(* one writer call may set several header keywords of a channel before it rewrites the file (a batched header write) *)
SameChannel(a, b) == (a \in OptMetaKeys /\ b \in OptMetaKeys) \/ (a \in RadMetaKeys /\ b \in RadMetaKeys)
MutateMore(id) == /\ phase = "run" /\ pending # {} /\ Kind(id) = "meta"
                  /\ \A q \in pending : SameChannel(q, id)
                  /\ id \notin done \cup pending /\ Gate(cfg, id) /\ Deps[id] \subseteq done
                  /\ MutateEffect(id)

(* staged writer, second half: rewrite the whole file iff writeStages *)
Rewrite == /\ phase = "run" /\ pending # {}
           /\ disk' = IF cfg.writeStages THEN OnDisk(mem) ELSE disk
           /\ done' = done \cup pending
           /\ pending' = {}
           /\ UNCHANGED <<cfg, mem, phase>>

(* a stage raises before its (next) mutation; the exception leaves compute() *)
StageFails == /\ phase = "run" /\ pending = {}
              /\ \E id \in BIds : CanDo(id)
              /\ phase' = "failed" /\ UNCHANGED <<cfg, done, mem, disk, pending>>

(* the process dies: between two boundaries or inside a writer call *)
Dies == /\ phase = "run"
        /\ phase' = "dead" /\ UNCHANGED <<cfg, done, mem, disk, pending>>

AllDone == Gated(cfg) \subseteq done
Return == /\ phase = "run" /\ pending = {} /\ AllDone
          /\ phase' = "returned" /\ UNCHANGED <<cfg, done, mem, disk, pending>>

Next == \/ \E id \in BIds : Mutate(id) \/ MutateMore(id)
        \/ Rewrite \/ StageFails \/ Dies \/ Return

Spec == Init /\ [][Next]_vars /\ WF_vars(Next)

(* ---- properties -------------------------------------------------------------- *)
AtBoundary == pending = {}

TypeOK == /\ phase \in {"run", "returned", "failed", "dead"}
          /\ done \subseteq BIds
          /\ disk.present \in BOOLEAN

(* C17: at every stage boundary -- also the one at which the run fails or dies -- the file is   *)
(* exactly the table of all boundaries completed so far                                          *)
DiskIsMemAtBoundary ==
    (cfg.writeStages /\ AtBoundary /\ done # {}) => disk = OnDisk(mem)

(* C17, at every moment (also inside a writer call and after death there): the file is the table as of the last COMPLETED boundary *)
Committed == [cols |-> SelectSeq(mem.cols, LAMBDA c : \A q \in pending : c \notin Range(Names(cfg, q))), meta |-> mem.meta \ pending]
DiskIsCommitted == (cfg.writeStages /\ done # {}) => disk = OnDisk(Committed)

(* C17: the file is always a prefix of the table in memory (and so of the final table) *)
DiskIsPrefix == (disk.present /\ disk # Stale) => IsPrefix(disk.cols, mem.cols) /\ disk.meta \subseteq mem.meta

(* C17: without writeStages the simulation writes nothing *)
NoWriteWhenDisabled == ~cfg.writeStages => disk = Disk0(cfg)

(* C17 + history: a file left by an earlier run is gone once the first boundary of this run has completed *)
StaleReplaced == (cfg.writeStages /\ done # {}) => disk # Stale

(* C17: the file never loses a column or a header value *)
FileOnlyGrows == [][(disk.present /\ disk # Stale) => disk'.present /\ IsPrefix(disk.cols, disk'.cols)
                                                        /\ disk.meta \subseteq disk'.meta]_vars

(* C14: structure of the returned table: exactly the columns and header keywords of the enabled   *)
(* stages, whatever linearisation was taken (confluence); a run without survivors returns the      *)
(* geometry columns only                                                                           *)
FinalStructure ==
    phase = "returned" =>
        /\ Range(mem.cols) = ExpCols(cfg) /\ Len(mem.cols) = Cardinality(ExpCols(cfg))
        /\ mem.meta = ExpMeta(cfg)
        /\ (~cfg.survivors => mem.cols = GeomCols(cfg) /\ mem.meta = {})
        /\ (cfg.optical /\ cfg.survivors => OptMetaKeys \subseteq mem.meta)
        /\ (cfg.radio /\ cfg.survivors => RadMetaKeys \subseteq mem.meta)
        /\ (~cfg.optical => mem.meta \cap OptMetaKeys = {})
        /\ (~cfg.radio => mem.meta \cap RadMetaKeys = {})
        /\ ("times" \in Range(mem.cols) <=> cfg.mode = "Target")
        /\ ("tmcintopt" \in Range(mem.cols) <=> cfg.mode = "Target" /\ cfg.optical /\ cfg.survivors)
        /\ ("tmcintrad" \in Range(mem.cols) <=> cfg.mode = "Target" /\ cfg.radio /\ cfg.survivors)

(* What C14 demands of an implementation (trace validation): every enabled stage's columns, once each, and the four integral   *)
(* keywords of each enabled channel ARE there.  Further columns or keywords (diagnostics a maintainer adds) are not excluded by *)
(* the property; that the design has none is the exact form above, checked on the model and reported as an extended-spec         *)
(* deviation on traces.                                                                                                          *)
FinalStructureAtLeast ==
    phase = "returned" =>
        /\ ExpCols(cfg) \subseteq Range(mem.cols)
        /\ \A i, j \in 1..Len(mem.cols) : i # j => mem.cols[i] # mem.cols[j]
        /\ ExpMeta(cfg) \subseteq mem.meta
        /\ (~cfg.survivors => IsPrefix(GeomCols(cfg), mem.cols))
        /\ (cfg.mode = "Target" => "times" \in Range(mem.cols))

Terminates == <>(phase # "run")
=============================================================================
