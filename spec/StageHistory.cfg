SPECIFICATION Spec
CONSTANT Ids = {1, 2, 3}
CONSTANT MaxLen = 3
CONSTANT MaxCalls = 3
INVARIANT MemoIsFunctionOfEvent
CHECK_DEADLOCK FALSE
