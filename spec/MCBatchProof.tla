---------------------------- MODULE MCBatchProof ----------------------------
(* BatchProof on small constants: (1) TLC re-checks the inductive invariant the proof uses (it is not vacuous: the  *)
(* coverage shows GatherStep / Return / Fail taken); (2) refinement: every behaviour of BatchProof is, under the     *)
(* mapping below, a behaviour of Batch (the gather loop is Batch!Finalize, intermediate GatherSteps stutter), so     *)
(* the unbounded theorem is about the same design that TraceBatch binds to CphotAng.__call__.                        *)
EXTENDS BatchProof, FiniteSets

MCN   == 6
MCNP  == 4
MCOff == [p \in 0..4 |-> CASE p = 0 -> 0 [] p = 1 -> 2 [] p = 2 -> 2 [] p = 3 -> 5 [] p = 4 -> 6]   \* lengths 2, 0, 3, 1
MCW   == 4
NoFail  == {}
OneFail == {3}

FirstOf(p) == Off[p - 1] + 1
BCfg == [N |-> N, Lens |-> [p \in 1..NP |-> Off[p] - Off[p - 1]], W |-> W, Fail |-> {FirstOf(p) : p \in FailP}]
BOutcome == IF outcome.tag = "Ok" THEN [tag |-> "Ok", val |-> outcome.val] ELSE [tag |-> outcome.tag]
B == INSTANCE Batch WITH Configs <- {BCfg}, cfg <- BCfg, st <- st, res <- res, outcome <- BOutcome, kernel <- 0
BatchSafety == B!Init /\ [][B!Next]_(B!vars)

(* BatchProof does not limit the number of running partitions (any W); restrict to W for the refinement check *)
WithinW == Cardinality({p \in Parts : st[p] = "running"}) <= W
=============================================================================
