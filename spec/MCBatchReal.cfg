SPECIFICATION Spec
CONSTANT Configs <- MCRealOk
INVARIANT TypeOK
INVARIANT OkIsIdentity
INVARIANT NeverSilent
INVARIANT PartitionResults
INVARIANT KernelReadOnly
PROPERTY FinalStates
PROPERTY Terminates
