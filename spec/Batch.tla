------------------------------- MODULE Batch -------------------------------
(***************************************************************************)
(* The shower batch (CphotAng.__call__): N events are cut into partitions   *)
(* of PSize consecutive events; each partition is one task of a dask bag;   *)
(* W workers take pending partitions in ANY order and finish them in ANY    *)
(* order; a final task concatenates the partition results in partition      *)
(* order.  The kernel is an uninterpreted injective function: the result of *)
(* event i is the token i, so a result sequence is a sequence of event ids  *)
(* and "bit for bit what one-at-a-time evaluation returns, in input order"  *)
(* is outcome.val = <<1, ..., N>>.  Fail is the set of events whose          *)
(* evaluation raises.                                                       *)
(*                                                                          *)
(* Each action is Guard /\ Effect so that the trace spec (TraceBatch) can   *)
(* evaluate the guard as a verdict clause and still apply the effect.       *)
(***************************************************************************)
EXTENDS Naturals, Sequences, FiniteSets

CONSTANT Configs          \* set of records [N, PSize | Lens, W, Fail]  (Fail: set of events whose evaluation raises)

VARIABLES cfg,            \* the batch being evaluated
          st,             \* partition -> "pending" | "running" | "done" | "failed"
          res,            \* partition -> sequence of result tokens
          outcome,        \* [tag |-> "None"] | [tag |-> "Ok", val |-> seq] | [tag |-> "Err"]
          kernel          \* token of the kernel object's mutable state

vars == <<cfg, st, res, outcome, kernel>>

(* A configuration cuts the N events into consecutive partitions.  The model instances give the code's rule (PSize consecutive  *)
(* events per partition, a shorter last one); a recorded execution gives the lengths it observed (Lens): any consecutive         *)
(* segmentation is a legitimate implementation choice - C10 quantifies over partition sizes.                                    *)
Uniform(n, s) == [p \in 1..((n + s - 1) \div s) |-> IF p * s <= n THEN s ELSE n - (p - 1) * s]
LensOf(c)     == IF "Lens" \in DOMAIN c THEN c.Lens ELSE Uniform(c.N, c.PSize)
NParts(c)     == Len(LensOf(c))
Offset(c, p)  == LET L == LensOf(c)  S[q \in 0..Len(L)] == IF q = 0 THEN 0 ELSE S[q - 1] + L[q] IN S[p - 1]
PartLen(c, p) == LensOf(c)[p]
PartSet(c, p) == {i \in 1..c.N : Offset(c, p) < i /\ i <= Offset(c, p) + PartLen(c, p)}
Failing(c, p) == PartSet(c, p) \cap c.Fail # {}
PartSeq(c, p) == [k \in 1..PartLen(c, p) |-> Offset(c, p) + k]
Parts(c)     == 1..NParts(c)
Iota(n)      == [i \in 1..n |-> i]

Running == {p \in DOMAIN st : st[p] = "running"}

Concat(r, n) == LET C[p \in 0..n] == IF p = 0 THEN <<>> ELSE C[p - 1] \o r[p] IN C[n]

Init == /\ cfg \in Configs
        /\ st = [p \in Parts(cfg) |-> "pending"]
        /\ res = [p \in Parts(cfg) |-> <<>>]
        /\ outcome = [tag |-> "None"]
        /\ kernel = 0

(* a free worker takes a pending partition; dask stops handing out work once a task failed *)
StartGuard(p)  == /\ p \in Parts(cfg) /\ st[p] = "pending"
                  /\ Cardinality(Running) < cfg.W
                  /\ outcome.tag = "None"
StartEffect(p) == st' = [st EXCEPT ![p] = "running"] /\ UNCHANGED <<cfg, res, outcome, kernel>>
Start(p) == StartGuard(p) /\ StartEffect(p)

(* the partition's events are evaluated one by one, in order; the kernel object is only read *)
FinishGuard(p) == /\ p \in Parts(cfg) /\ st[p] = "running"
                  /\ ~Failing(cfg, p)
FinishEffect(p, r) == /\ st' = [st EXCEPT ![p] = "done"]
                      /\ res' = [res EXCEPT ![p] = r]
                      /\ UNCHANGED <<cfg, outcome, kernel>>
Finish(p) == FinishGuard(p) /\ FinishEffect(p, PartSeq(cfg, p))

(* the failing event's partition raises; the error becomes the outcome of the batch call *)
FailGuard(p)  == /\ p \in Parts(cfg) /\ st[p] = "running"
                 /\ Failing(cfg, p)
FailEffect(p) == /\ st' = [st EXCEPT ![p] = "failed"]
                 /\ outcome' = [tag |-> "Err"]
                 /\ UNCHANGED <<cfg, res, kernel>>
Fail(p) == FailGuard(p) /\ FailEffect(p)

(* gather: concatenate in partition-index order, whatever the completion order was *)
FinalizeGuard == /\ cfg.N > 0 /\ outcome.tag = "None"
                 /\ \A p \in Parts(cfg) : st[p] = "done"
FinalizeEffect(v) == outcome' = [tag |-> "Ok", val |-> v] /\ UNCHANGED <<cfg, st, res, kernel>>
Finalize == FinalizeGuard /\ FinalizeEffect(Concat(res, NParts(cfg)))

(* empty batch: no task graph is built, an empty result is returned *)
EmptyGuard == cfg.N = 0 /\ outcome.tag = "None"
Empty == EmptyGuard /\ FinalizeEffect(<<>>)

Next == \/ \E p \in Parts(cfg) : Start(p)
        \/ \E p \in Parts(cfg) : Finish(p)
        \/ \E p \in Parts(cfg) : Fail(p)
        \/ Finalize \/ Empty

Spec == Init /\ [][Next]_vars /\ WF_vars(Next)

-----------------------------------------------------------------------------
TypeOK == /\ st \in [Parts(cfg) -> {"pending", "running", "done", "failed"}]
          /\ outcome.tag \in {"None", "Ok", "Err"}
          /\ Cardinality(Running) <= cfg.W

(* C10: in input order, nothing missing, duplicated or shifted *)
OkIsIdentity == outcome.tag = "Ok" => outcome.val = Iota(cfg.N)

(* C10: a failing event is never silent *)
NeverSilent == cfg.Fail # {} => outcome.tag # "Ok"

(* a finished partition holds exactly its own events, in order *)
PartitionResults == \A p \in Parts(cfg) : st[p] = "done" => res[p] = PartSeq(cfg, p)

KernelReadOnly == kernel = 0

(* each partition finishes at most once: done/failed are final *)
FinalStates == [][\A p \in Parts(cfg) : st[p] \in {"done", "failed"} => st'[p] = st[p]]_vars

(* the call always returns or raises *)
Terminates == <>(outcome.tag # "None")
=============================================================================
