SPECIFICATION Spec
CONSTANT Deep = TRUE
INVARIANT FiniteNonNegative
INVARIANT ClampAndCloud
PROPERTY Terminates
CHECK_DEADLOCK FALSE
