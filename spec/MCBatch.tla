------------------------------ MODULE MCBatch ------------------------------
EXTENDS Batch, TLC
F1(n) == {{}} \cup {{i} : i \in 1..n}
F2(n) == F1(n) \cup {{i, j} : i, j \in 1..n}
MCSmall == UNION { { [N |-> n, PSize |-> s, W |-> w, Fail |-> f] : s \in 1..3, w \in 1..3, f \in F2(n) } : n \in 0..5 }
(* every consecutive segmentation (composition) of up to 4 events, not only the code's uniform rule *)
Compositions(n) == {L \in UNION {[1..k -> 1..n] : k \in 0..n} : LET S[q \in 0..Len(L)] == IF q = 0 THEN 0 ELSE S[q - 1] + L[q] IN S[Len(L)] = n}
MCSegmented == UNION { { [N |-> n, Lens |-> L, W |-> w, Fail |-> f] : L \in Compositions(n), w \in 1..2, f \in F1(n) } : n \in 1..4 }
MCSmallAll == MCSmall \cup MCSegmented
(* the code's real constants: partition_size = 100 *)
Fs == {{}, {1}, {99}, {100}, {101}, {200}, {450}, {100, 101}, {1, 450}}
MCRealOk == UNION { { [N |-> n, PSize |-> 100, W |-> w, Fail |-> f] : w \in {1, 2, 4}, f \in {x \in Fs : x \subseteq 1..n} } :
                    n \in {1, 99, 100, 101, 250, 450} }
(* behaviours of these instances are dumped and replayed into the real code *)
MCReplay == { [N |-> 250, PSize |-> 100, W |-> 2, Fail |-> f] : f \in {{}, {1}, {100}, {101}, {250}, {100, 201}} }
            \cup { [N |-> 101, PSize |-> 100, W |-> w, Fail |-> f] : w \in {1, 2}, f \in {{}, {100}, {101}} }
            \cup { [N |-> 1, PSize |-> 100, W |-> 1, Fail |-> f] : f \in {{}, {1}} }
            \cup { [N |-> 0, PSize |-> 100, W |-> 1, Fail |-> {}] }
=============================================================================
