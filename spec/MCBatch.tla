------------------------------ MODULE MCBatch ------------------------------
EXTENDS Batch
SmallConfigs == { [N |-> n, PSize |-> s, W |-> w, FailAt |-> f] :
                    n \in 0..6, s \in 1..3, w \in 1..3, f \in 0..6 } 
MCSmall == { c \in SmallConfigs : c.FailAt <= c.N }
(* the code's real constants: partition_size = 100 *)
MCReal == { [N |-> n, PSize |-> 100, W |-> w, FailAt |-> f] :
              n \in {1, 99, 100, 101, 250, 450}, w \in {1, 2, 4}, f \in {0, 1, 99, 100, 101, 200, 450} }
MCRealOk == { c \in MCReal : c.FailAt <= c.N }
(* behaviours of these instances are dumped and replayed into the real code *)
MCReplay == { [N |-> 250, PSize |-> 100, W |-> 2, FailAt |-> f] : f \in {0, 1, 100, 101, 250} }
            \cup { [N |-> 101, PSize |-> 100, W |-> w, FailAt |-> f] : w \in {1, 2}, f \in {0, 100, 101} }
            \cup { [N |-> 1, PSize |-> 100, W |-> 1, FailAt |-> f] : f \in {0, 1} }
            \cup { [N |-> 0, PSize |-> 100, W |-> 1, FailAt |-> 0] }
=============================================================================
