SPECIFICATION Spec
CONSTANT Options <- MCOptions
CONSTANT FileThrown = 23
INVARIANT ErrorIffConflict
INVARIANT NothingWrittenOnError
INVARIANT ResultFile
INVARIANT OnlyTheOutputPath
PROPERTY Terminates
CHECK_DEADLOCK FALSE
