SPECIFICATION Spec
CONSTANT Names <- MCNames
CONSTANT Forms <- MCForms
INVARIANT OnlyRegisteredByName
INVARIANT EveryNamedRegisteredRuns
INVARIANT AtMostOncePerName
INVARIANT NothingWithoutRequest
INVARIANT ValueUntouched
PROPERTY Terminates
