------------------------------ MODULE MCClouds ------------------------------
(* Lattice over the sphere incl. poles, +-180 deg and cell edges: the cell predicate is total and the four corners   *)
(* exist; the three kernel regimes are exhaustive and agree at their common boundaries.                               *)
EXTENDS Clouds, TLC, FiniteSets, Integers
VARIABLES a, b
Lat == FRadians(FDiv(FInt(a), FInt(4)))             \* -90 .. 90 in 0.25 deg
Lon == FRadians(FDiv(FInt(b * 5), FInt(8)))         \* -360 .. 360 in 0.625 deg (the MERRA-2 spacing)
Init == a = -360 /\ b \in -576..576
Next == a < 360 /\ a' = a + 8 /\ UNCHANGED b
Spec == Init /\ [][Next]_<<a, b>>
CellTotal == /\ Cardinality(CornerAltitudes(Lat, Lon)) >= 1
             /\ \A c \in CornerAltitudes(Lat, Lon) : FIsFinite(c)
             /\ FLe(FInt(-180), LonDeg(Lon)) /\ FLt(LonDeg(Lon), FInt(180))
RegimesExhaustive ==
    LET z1 == FDec("0.05")  zp == FDec("64.9") IN
    /\ Regime(FNegInf, z1, zp) = "below" /\ Regime(z1, z1, zp) = "below" /\ Regime(FNextUp(z1), z1, zp) = "between"
    /\ Regime(zp, z1, zp) = "between" /\ Regime(FNextUp(zp), z1, zp) = "above" /\ Regime(FInf, z1, zp) = "above"
=============================================================================
