----------------------------- MODULE MCOptical -----------------------------
(* Lattice check of the effective-cone rule: ratios r on {0, 1, 2, 2+ulp, e, 10, 1e6,..}: *)
(* never smaller than the intrinsic angle, never decreasing with signal, and for r > 2   *)
(* the max is not the binding term (so max(...) and where(...) are the same function).    *)
EXTENDS Optical, TLC, Sequences
Rs == <<FZero, FDec("1e-300"), FOne, FNextDown(FTwo), FTwo, FNextUp(FTwo), FDec("2.000001"), FDec("2.718281828459045"),
        FInt(10), FDec("1e6"), FDec("1e300")>>
Thetas == {FDec("0.1"), FDec("1.5"), FDec("3.7")}
VARIABLES k, th
Init == k \in 1..Len(Rs) /\ th \in Thetas
Next == UNCHANGED <<k, th>>
Spec == Init /\ [][Next]_<<k, th>>
NeverSmaller == FGe(ThetaEff(th, Rs[k], FOne), th)
NonDecreasing == k < Len(Rs) => FLe(ThetaEff(th, Rs[k], FOne), ThetaEff(th, Rs[k + 1], FOne))
MaxNotBinding == FGt(Rs[k], FTwo) => FGe(FSqrt(FMul(FTwo, FLn(Rs[k]))), FOne)
JumpAtTwo == FClose(Enhance(FNextUp(FTwo)), FSqrt(FMul(FTwo, FLn(FTwo))), FDec("1e-12"), FZero) /\ Enhance(FTwo) = FOne
=============================================================================
