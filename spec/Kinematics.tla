----------------------------- MODULE Kinematics -----------------------------
(***************************************************************************)
(* C07.  Tau kinematics and decay point.  Constants are written as decimal  *)
(* strings in the specification; the Earth radius is a parameter (the       *)
(* property only requires that geometry and decay use one sphere).          *)
(***************************************************************************)
EXTENDS Float64, Naturals

MTau  == FDec("1.77686")          \* GeV
Tau0  == FDec("2.903e-13")        \* s
CKmS  == FDec("299792.458")       \* km/s

Gamma(E)      == FDiv(E, MTau)
BetaTau(g)    == FSqrt(FSub(FOne, FDiv(FOne, FSq(g))))
ShowerE(E, f) == FDiv(FMul(f, E), FDec("1e8"))              \* units of 100 PeV
MeanLen(g, bt) == FMul(FMul(g, bt), FMul(CKmS, Tau0))       \* km
DecayLen(g, bt, u) == FNeg(FMul(MeanLen(g, bt), FLn(u)))
(* altitude of the point at distance L along a straight line leaving the surface at emergence angle beta *)
Altitude(L, beta, R) == FSub(FSqrt(FAdd(FAdd(FSq(R), FSq(L)), FMul(FMul(FTwo, R), FMul(L, FSin(beta))))), R)
(* exponential law: P(length > L) = u *)
Survival(L, g, bt) == FExp(FNeg(FDiv(L, MeanLen(g, bt))))
=============================================================================
