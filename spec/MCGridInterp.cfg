SPECIFICATION Spec
INVARIANT ForwardOfInverse
INVARIANT InRange
INVARIANT Monotone
INVARIANT BlendIsRow
CHECK_DEADLOCK FALSE
