----------------------------- MODULE MCCherenkov -----------------------------
(* Spec-level checks of Cherenkov.tla on a small lattice of events (boundaries included): every behaviour terminates with     *)
(* finite, non-negative outputs; an emergence angle of 0 gives the same result as 1 degree; a cloud top at or below the decay  *)
(* altitude changes nothing and a cloud top above the track gives exactly (0, 0).  Each behaviour evaluates a short queue of   *)
(* events one after the other and keeps their results.                                                                         *)
EXTENDS Cherenkov, TLC
CONSTANT Deep
VARIABLES queue, res
E(b, a, e, t) == [beta |-> FRadians(b), alt |-> a, E100 |-> e, top |-> t, zdet |-> Z0]
Queues ==
    { << E(FZero, FInt(2), FOne, FNegInf), E(FOne, FInt(2), FOne, FNegInf), E(FDec("0.3"), FInt(2), FOne, FInt(2)), E(FOne, FInt(2), FOne, FInt(100)) >>,
      << E(FInt(42), FInt(20), FDec("1e4"), FNegInf), E(FInt(42), FInt(20), FDec("1e4"), FInt(20)), E(FInt(42), FZero, FDec("1e-5"), FNegInf),
         E(FInt(42), FZero, FDec("1e-5"), FInf) >> }
    \cup (IF Deep THEN { << E(FInt(b), FInt(a), e, FNegInf) >> : b \in {5, 20, 35}, a \in {0, 10, 19}, e \in {FDec("1e-3"), FOne, FDec("1e3")} } ELSE {})
Init == /\ queue \in Queues /\ res = <<>>
        /\ ev = queue[1] /\ geo = GeoOf(queue[1]) /\ phase = "idle" /\ z = FZero /\ cumT = FZero /\ cumO = FZero /\ ozPrev = FZero
        /\ tot = <<FZero, FZero>> /\ acc = Acc0 /\ out = <<FZero, FZero>>
Start == phase = "idle" /\ Len(res) < Len(queue) /\ Load(queue[Len(res) + 1]) /\ UNCHANGED <<queue, res>>
Run == CNext /\ UNCHANGED <<queue, res>>
Keep == phase = "done" /\ res' = Append(res, out) /\ phase' = "idle" /\ UNCHANGED <<queue, ev, geo, z, cumT, cumO, ozPrev, tot, acc, out>>
Next == Start \/ Run \/ Keep
Spec == Init /\ [][Next]_<<queue, res, cvars>> /\ WF_<<queue, res, cvars>>(Next)
FiniteNonNegative == \A k \in 1..Len(res) : FIsFinite(res[k][1]) /\ FGe(res[k][1], FZero) /\ FIsFinite(res[k][2]) /\ FGe(res[k][2], FZero)
Finished == Len(res) = Len(queue) /\ phase = "idle"
(* the two four-event queues: results 1 and 2 equal (clamp) and 3 equal too (0.3 deg, cloud at the decay altitude); result 4 is (0, 0) *)
ClampAndCloud == (Finished /\ Len(queue) = 4) =>
                    /\ (FEq(queue[1].beta, FZero) => (res[1] = res[2] /\ res[3] = res[2]))
                    /\ (~FEq(queue[1].beta, FZero) => res[1] = res[2])
                    /\ res[4] = <<FZero, FZero>>
Terminates == <>Finished
=============================================================================
