--------------------------- MODULE TraceSpectrum ---------------------------
(* Trace validation of Spectra(config)(N) against Spectrum.tla (C12).         *)
(*   mono  {x, want}                    one sampled event of a mono spectrum  *)
(*   power {x, u, p, lo, hi}            one sampled event and its uniform     *)
(*   call  {n, len, norm, wsum, kind, p, lo, hi}   one call: length + factors *)
EXTENDS TraceKit, Spectrum

Check(e) ==
    CASE e.kind = "mono" -> Fails(<< <<"C12 mono-energetic spectrum yields exactly the configured log-energy", e.x = e.want>> >>)
      [] e.kind = "power" ->
           Fails(<< <<"C12 log-energy inside [lower_bound, upper_bound]", InBounds(e.x, e.lo, e.hi)>>,
                    <<"C12 sampled log-energy is the inverse-CDF image of its uniform number: CDF(x) = u",
                      (* on a range only a few ulps wide no double has CDF(x) = u: there x is the double next to the exact quantile *)
                      \/ FClose(CDF(e.x, e.p, e.lo, e.hi), e.u, FZero, FDec("1e-9"))
                      \/ FUlps(e.x, Quantile(e.u, e.p, e.lo, e.hi)) <= 4>> >>)
      [] e.kind = "call" ->
           Fails(<< <<"C12 N events are returned", e.len = e.n>>,
                    <<"C12 normalisation x weight-sum = 1", FClose(FMul(e.norm, e.wsum), FOne, FDec("1e-12"), FZero)>>,
                    <<"EXT: the factors are 1/I and I with I the integral of E^-index over the range",
                      e.spec = "mono" \/ FClose(e.wsum, Integral(e.p, e.lo, e.hi), FDec("1e-6"), FZero)>>,
                    <<"C12 finite factors", FIsFinite(e.norm) /\ FIsFinite(e.wsum)>> >>)
      [] OTHER -> <<"unknown event kind">>

TInit == TKInit
TNext == TKStep(Check)
TSpec == TInit /\ [][TNext]_tkvars
=============================================================================
