------------------------------ MODULE TracePlots ------------------------------
(* Trace validation of nss_result_plot / nss_result_plot_from_file against Plots.tla: one event per decorated call with the     *)
(* registered names, the form of the plot argument, the functions that ran (in order), and what they and the caller received.   *)
EXTENDS TraceKit, Plots

Check(e) ==
    Fails(<< <<"EXT: plot dispatch: exactly the selected plot functions run, in the specified order",
               e.called = Calls(e.registered, e.form, e.names)>>,
             <<"EXT: plot functions receive the stage's inputs and outputs", e.argsOk>>,
             <<"EXT: the stage's return value is not altered by plotting", e.valueOk>>,
             <<"EXT: every registered plot function is listed in the plot registry", e.inRegistry>> >>)

CONSTANTS Names, Forms
TInit == TKInit /\ registered = <<>> /\ form = "none" /\ names = <<>> /\ phase = "call" /\ called = <<>> /\ value = 0
TNext == TKStep(Check) /\ UNCHANGED vars
TSpec == TInit /\ [][TNext]_<<tkvars, vars>>
=============================================================================
