------------------------------ MODULE GridFile ------------------------------
(***************************************************************************)
(* C18, C16.  A file store as a register per path: Write(p, v) replaces the *)
(* content, Read(p) returns the LAST value written to p -- all of it        *)
(* (for grids: data, axes, axis names; for results tables: columns and      *)
(* header).  hist is a history variable used only to state the property.    *)
(***************************************************************************)
EXTENDS Naturals, Sequences

CONSTANTS Paths, Values, MaxWrites

VARIABLES files,      \* path -> [present, v]
          hist,       \* path -> sequence of values written
          lastRead    \* [present, p, v, n]: value returned by the last Read of p when n writes had happened
vars == <<files, hist, lastRead>>

Init == /\ files = [p \in Paths |-> [present |-> FALSE, v |-> ""]]
        /\ hist = [p \in Paths |-> <<>>]
        /\ lastRead = [present |-> FALSE, p |-> "", v |-> "", n |-> 0]
Write(p, v) == /\ Len(hist[p]) < MaxWrites
               /\ files' = [files EXCEPT ![p] = [present |-> TRUE, v |-> v]]
               /\ hist' = [hist EXCEPT ![p] = Append(@, v)]
               /\ UNCHANGED lastRead
Read(p) == /\ files[p].present
           /\ lastRead' = [present |-> TRUE, p |-> p, v |-> files[p].v, n |-> Len(hist[p])]
           /\ UNCHANGED <<files, hist>>
Next == \E p \in Paths : (\E v \in Values : Write(p, v)) \/ Read(p)
Spec == Init /\ [][Next]_vars
(* a read returns exactly the most recent write to that path *)
LossFree == lastRead.present => lastRead.v = hist[lastRead.p][lastRead.n]
=============================================================================
