SPECIFICATION Spec
CONSTANT Configs <- MCReplay
INVARIANT OkIsIdentity
INVARIANT NeverSilent
