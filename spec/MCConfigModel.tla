---------------------------- MODULE MCConfigModel ----------------------------
(* (1) the file register over all variants; (2) the acceptance / conversion table is total; (3) the plans the driver    *)
(* replays: every (field, form, unit) combination and every month input, and every configuration variant.               *)
EXTENDS ConfigModel, TLC
VARIABLES files, hist, lastRead
Reg == INSTANCE GridFile WITH Paths <- {"toml"}, Values <- {v \in Variants : Representable(v)}, MaxWrites <- 2
Spec == Reg!Spec
RoundTrip == Reg!LossFree
UnitPlan == {<<f, fm, u>> : f \in Fields, fm \in Forms, u \in Units}
MonthPlan == {[form |-> "int", n |-> n, s |-> ""] : n \in 0..14} \cup {[form |-> "num", n |-> n, s |-> ""] : n \in 0..14}
             \cup {[form |-> "name", n |-> 0, s |-> MonthNames[k]] : k \in 1..12} \cup {[form |-> "abbr", n |-> 0, s |-> MonthAbbr[k]] : k \in 1..12}
             \cup {[form |-> "name", n |-> 0, s |-> x] : x \in {"Smarch", "", "Janu", "13th"}}
ASSUME PrintT(<<"UNITPLAN", UnitPlan>>)
ASSUME PrintT(<<"VARIANTS", Variants>>)
ASSUME \A f \in Fields : \E u \in Units : KindOf(u) = FieldKind[f] /\ u = Canonical[FieldKind[f]]
ASSUME \A f \in Fields, u \in Units : Accepts(f, [form |-> "string", unit |-> u, v |-> FOne]) <=> KindOf(u) = FieldKind[f]
ASSUME Cardinality({m \in MonthPlan : MonthAccepted(m)}) = 12 + 12 + 12 + 12
=============================================================================
