SPECIFICATION Spec
CONSTANT Step = 50
INVARIANT RoundTripZ
INVARIANT RoundTripP
INVARIANT Positive
INVARIANT NearlyMonotone
INVARIANT Ends
CHECK_DEADLOCK FALSE
