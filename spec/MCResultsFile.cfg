SPECIFICATION Spec
CONSTANT Buggy = FALSE
INVARIANT ReconAgrees
INVARIANT DefaultNotJudged
CHECK_DEADLOCK FALSE
