SPECIFICATION Spec
CONSTANT Unaligned = FALSE
INVARIANT SameBins
INVARIANT NonEmpty
CHECK_DEADLOCK FALSE
