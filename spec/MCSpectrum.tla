----------------------------- MODULE MCSpectrum -----------------------------
(* Lattice check of Spectrum.tla: indices {0, 1/2, 1, 1+2^-52, 2, 3, 4},       *)
(* bounds on {6, 7.5, 12}, u on [0, 1] including both ends.                   *)
EXTENDS Spectrum, TLC, Sequences
Ps == {FZero, FDec("0.5"), FOne, FNextUp(FOne), FNextDown(FOne), FTwo, FInt(3), FInt(4), FDec("2.2")}
Bounds == {<<FInt(6), FDec("7.5")>>, <<FInt(6), FInt(12)>>, <<FDec("7.5"), FInt(12)>>}
Us == <<FZero, FDec("5e-324"), FDec("1e-17"), FDec("0.001"), FDec("0.25"), FDec("0.5"), FDec("0.999"), FNextDown(FOne), FOne>>
VARIABLES p, bd, k
Init == p \in Ps /\ bd \in Bounds /\ k \in 1..Len(Us)
Next == UNCHANGED <<p, bd, k>>
Spec == Init /\ [][Next]_<<p, bd, k>>
X(i) == FClip(Quantile(Us[i], p, bd[1], bd[2]), bd[1], bd[2])
BackwardError == FClose(CDF(X(k), p, bd[1], bd[2]), Us[k], FZero, FDec("1e-9"))
Range == InBounds(X(k), bd[1], bd[2])
Monotone == k < Len(Us) => FLe(X(k), X(k + 1))
Ends == FClose(X(1), bd[1], FZero, FDec("1e-12")) /\ (FClose(X(Len(Us)), bd[2], FZero, FDec("1e-9")) \/ FGe(FSub(FOne, CDF(X(Len(Us)), p, bd[1], bd[2])), FZero))
=============================================================================
