---------------------------- MODULE MCGeomTarget ----------------------------
(* Lattice check of GeomTarget.tla: the triangle identities hold for every kept   *)
(* direction; the keep rule is the conjunction of its two masks; Dark is monotone *)
(* in each threshold.                                                              *)
EXTENDS GeomTarget, TLC, Integers
R == FDec("6378.1")
Hs == {FAdd(R, FInt(5)), FAdd(R, FInt(33)), FAdd(R, FInt(525)), FAdd(R, FInt(36000))}
Limbs == {FRadians(FDec("0.5")), FRadians(FInt(7)), FRadians(FInt(30))}
VARIABLES H, limb, n, s, m, p
vars == <<H, limb, n, s, m, p>>
(* source altitude from -90 deg to +10 deg in 0.25 deg steps *)
Alt == FRadians(FDiv(FInt(n - 360), FInt(4)))
Grid == {FRadians(FInt(-30)), FRadians(FInt(-18)), FRadians(FInt(-5)), FZero, FRadians(FInt(20)), FRadians(FInt(150)), FRadians(FInt(170))}
Init == H \in Hs /\ limb \in Limbs /\ n = 0 /\ s \in Grid /\ m \in Grid /\ p \in Grid
Next == n < 400 /\ n' = n + 1 /\ UNCHANGED <<H, limb, s, m, p>>
Spec == Init /\ [][Next]_vars
a == Nadir(Alt)
b == Beta(a, H, R)
L == PathLen(a, b, H)
TriangleClosed == Kept(Alt, H, R, limb) =>
    /\ FClose(SpotRadius(a, L, H), R, FDec("1e-9"), FZero)
    /\ FClose(SinEmergence(a, L, H), FSin(b), FDec("1e-7"), FDec("1e-9"))
    /\ FGe(L, FZero) /\ FLe(L, FSqrt(FSub(FSq(H), FSq(R))))
    /\ FGe(b, FZero) /\ FLt(b, Deg42)
KeepIsConjunction == Kept(Alt, H, R, limb) <=> (Occulted(Alt, H, R) /\ FLt(b, Deg42) /\ FLt(b, Beta(FSub(AlphaHorizon(H, R), limb), H, R)))
SunCut == FRadians(FInt(-18))  MoonCut == FZero  MinPhase == FRadians(FInt(150))
DarkMonotone == /\ (Dark(s, m, p, SunCut, MoonCut, MinPhase) => Dark(s, m, p, FAdd(SunCut, FDec("0.1")), FAdd(MoonCut, FDec("0.1")), FSub(MinPhase, FDec("0.1"))))
                /\ (Dark(s, m, p, SunCut, MoonCut, MinPhase) => FLt(s, SunCut))
                /\ (~FLt(s, SunCut) => ~Dark(s, m, p, SunCut, MoonCut, MinPhase))
=============================================================================
