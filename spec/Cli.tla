--------------------------------- MODULE Cli ---------------------------------
(***************************************************************************)
(* The `nuspacesim run` command line (apps/run.py, apps/utils.py) - beyond  *)
(* the listed properties.  Options override the configuration file; the     *)
(* effective configuration is handed to compute(); the results file is      *)
(* written unless --no-result-file.                                         *)
(*                                                                          *)
(* opts = [count, mono, power, nocloud, monocloud, pmap, out, w, n]         *)
(*   count: 0 = argument absent; mono / monocloud: "absent", "zero" or      *)
(*   "value"; power, pmap, out: BOOLEAN (given or not); w, n, nocloud flags *)
(* Deviation of the implementation that is modelled on purpose (the spec    *)
(* describes what the code does): an option is recognised by its            *)
(* truthiness, so `--monospectrum 0` and `--monocloud 0` are treated as     *)
(* absent (Given(x) below).                                                 *)
(***************************************************************************)
EXTENDS Naturals, FiniteSets

Given(x) == x = "value"                      \* "zero" is indistinguishable from "absent"
CloudFlags(o) == {k \in {"nocloud", "monocloud", "pmap"} :
                    (k = "nocloud" /\ o.nocloud) \/ (k = "monocloud" /\ Given(o.monocloud)) \/ (k = "pmap" /\ o.pmap)}
SpectrumConflict(o) == Given(o.mono) /\ o.power
CloudConflict(o) == Cardinality(CloudFlags(o)) > 1
Rejected(o) == SpectrumConflict(o) \/ CloudConflict(o)

EffThrown(o, fileThrown) == IF o.count = 0 THEN fileThrown ELSE o.count
EffSpectrum(o) == IF Given(o.mono) THEN "mono-option" ELSE IF o.power THEN "power-option" ELSE "file"
EffCloud(o) == IF o.nocloud THEN "none-option" ELSE IF Given(o.monocloud) THEN "mono-option" ELSE IF o.pmap THEN "map-option" ELSE "file"

VARIABLES opts, phase, passed, files
(* passed: what compute() receives: [thrown, spectrum, cloud, writeStages, path]; files: set of paths that exist *)
vars == <<opts, phase, passed, files>>
CONSTANTS Options, FileThrown
OutPath(o) == IF o.out THEN "given" ELSE "default"

Init == opts \in Options /\ phase = "start" /\ passed = [thrown |-> 0, spectrum |-> "", cloud |-> "", writeStages |-> FALSE, path |-> ""] /\ files = {}
Parse == /\ phase = "start"
         /\ IF Rejected(opts) THEN phase' = "error" /\ UNCHANGED <<passed, files>>
            ELSE /\ phase' = "parsed"
                 /\ passed' = [thrown |-> EffThrown(opts, FileThrown), spectrum |-> EffSpectrum(opts), cloud |-> EffCloud(opts),
                               writeStages |-> opts.w, path |-> OutPath(opts)]
                 /\ UNCHANGED files
         /\ UNCHANGED opts
(* compute() runs; with write_stages it leaves the staged file at the output path *)
Compute == /\ phase = "parsed" /\ phase' = "ran"
           /\ files' = IF passed.writeStages THEN files \cup {passed.path} ELSE files
           /\ UNCHANGED <<opts, passed>>
WriteResult == /\ phase = "ran" /\ phase' = "done"
               /\ files' = IF opts.n THEN files ELSE files \cup {passed.path}
               /\ UNCHANGED <<opts, passed>>
Next == Parse \/ Compute \/ WriteResult
Spec == Init /\ [][Next]_vars /\ WF_vars(Next)

ErrorIffConflict == phase = "error" <=> (phase # "start" /\ Rejected(opts))
NothingWrittenOnError == phase = "error" => files = {}
ResultFile == phase = "done" => ((passed.path \in files) <=> (~opts.n \/ opts.w))
OnlyTheOutputPath == files \subseteq {OutPath(opts)}
Terminates == <>(phase \in {"error", "done"})
=============================================================================
