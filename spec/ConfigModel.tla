----------------------------- MODULE ConfigModel -----------------------------
(***************************************************************************)
(* C15.  Configuration values, units and the TOML round trip.               *)
(*                                                                          *)
(* Dimensional fields have a kind and a canonical unit (km, rad, m2, MHz,   *)
(* dB).  An input is a bare number (taken to be in the canonical unit), a   *)
(* "value unit" string or a Quantity; the stored value is the value in the  *)
(* canonical unit; an input whose unit is of another kind is rejected.      *)
(* The configuration is a record with discriminated unions (spectrum,       *)
(* cloud model) and optional sections; Write / Read go through a file.      *)
(***************************************************************************)
EXTENDS Float64, Naturals, Sequences, FiniteSets

(* ---- units ---------------------------------------------------------------- *)
Kinds == {"length", "angle", "area", "frequency", "gain"}
Canonical == [length |-> "km", angle |-> "rad", area |-> "m2", frequency |-> "MHz", gain |-> "dB"]
(* unit -> <<kind, factor to the canonical unit>> *)
UnitTable ==
    [km |-> <<"length", FOne>>, m |-> <<"length", FDec("1e-3")>>, cm |-> <<"length", FDec("1e-5")>>, mm |-> <<"length", FDec("1e-6")>>,
     rad |-> <<"angle", FOne>>, deg |-> <<"angle", FDiv(FPi, FInt(180))>>, arcmin |-> <<"angle", FDiv(FPi, FInt(10800))>>,
     arcsec |-> <<"angle", FDiv(FPi, FInt(648000))>>,
     m2 |-> <<"area", FOne>>, cm2 |-> <<"area", FDec("1e-4")>>,
     MHz |-> <<"frequency", FOne>>, GHz |-> <<"frequency", FInt(1000)>>, kHz |-> <<"frequency", FDec("1e-3")>>, Hz |-> <<"frequency", FDec("1e-6")>>,
     dB |-> <<"gain", FOne>>]
Units == DOMAIN UnitTable
KindOf(u) == UnitTable[u][1]
Factor(u) == UnitTable[u][2]

(* dimensional fields and their kinds *)
FieldKind ==
    [altitude |-> "length", latitude |-> "angle", longitude |-> "angle", sun_alt_cut |-> "angle", moon_alt_cut |-> "angle",
     moon_min_phase_angle_cut |-> "angle", telescope_effective_area |-> "area", low_frequency |-> "frequency",
     high_frequency |-> "frequency", gain |-> "gain", max_cherenkov_angle |-> "angle", max_azimuth_angle |-> "angle",
     angle_from_limb |-> "angle", source_RA |-> "angle", source_DEC |-> "angle"]
Fields == DOMAIN FieldKind

Forms == {"bare", "string", "quantity"}
(* an input is [form, unit, v]; unit is ignored for the bare form *)
Accepts(field, inp) == inp.form = "bare" \/ KindOf(inp.unit) = FieldKind[field]
Stored(field, inp) == IF inp.form = "bare" THEN inp.v ELSE FMul(inp.v, Factor(inp.unit))
BandOK(lo, hi) == FLt(lo, hi)

(* ---- months --------------------------------------------------------------- *)
MonthNames == <<"January", "February", "March", "April", "May", "June", "July", "August", "September", "October", "November", "December">>
MonthAbbr  == <<"Jan", "Feb", "Mar", "Apr", "May", "Jun", "Jul", "Aug", "Sep", "Oct", "Nov", "Dec">>
(* month inputs are [form, n, s]: form "int" uses n; "num" is the decimal text of n ("7" or "07"); "name" / "abbr" are s *)
MonthOf(inp) ==
    CASE inp.form = "int" -> IF inp.n \in 1..12 THEN inp.n ELSE 0
      [] inp.form = "num" -> IF inp.n \in 1..12 THEN inp.n ELSE 0
      [] inp.form = "name" -> IF \E k \in 1..12 : MonthNames[k] = inp.s THEN CHOOSE k \in 1..12 : MonthNames[k] = inp.s ELSE 0
      [] inp.form = "abbr" -> IF \E k \in 1..12 : MonthAbbr[k] = inp.s THEN CHOOSE k \in 1..12 : MonthAbbr[k] = inp.s ELSE 0
      [] OTHER -> 0
MonthAccepted(inp) == MonthOf(inp) # 0          \* 0 = rejected

(* ---- the configuration as a value, and the file -------------------------------- *)
(* variants of the discriminated unions and optional sections *)
SpectrumVariants == {"mono", "power"}
CloudVariants == {"none", "mono_neg_inf", "mono_finite", "map_int_version", "map_str_version"}
StringClasses == {"plain", "quote", "backslash", "nonascii", "newline", "crlf", "empty"}
Variants == [spectrum : SpectrumVariants, cloud : CloudVariants, mode : {"Diffuse", "Target"}, title : StringClasses,
             optional_none : {"", "sun_moon", "optical", "radio", "ionosphere", "target"}]
(* a configuration with an optional section set to None cannot be represented in TOML *)
Representable(v) == v.optional_none = ""

(* The file itself has the register semantics of GridFile.tla (a read returns the last write, all of it); see           *)
(* MCConfigModel, which instantiates it with Values = the representable variants.                                        *)
=============================================================================
