SPECIFICATION TSpec
POSTCONDITION TKAccepted
CHECK_DEADLOCK FALSE
