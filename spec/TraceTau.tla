------------------------------ MODULE TraceTau ------------------------------
(***************************************************************************)
(* Trace validation of the tau stage against TauTables.tla / Kinematics.tla *)
(* (C04, C05, C07).  Event kinds:                                           *)
(*   z        {e, b, u, z, grp}   grid_cdf_sampler(grid)(e, b, u)           *)
(*   zalt     {sampler, e, b, u, z}  lerp_ / nearest_cdf_sampler(grid, e)(b, u)*)
(*   etau     {e, b, u, E}        Taus.tau_energy(b, e, u)                  *)
(*   reject   {e, raised}         a call with this neutrino energy raised?  *)
(*   explicit {zint, zexp}        internal-generator call vs explicit-u call*)
(*   pexit    {e, b, p}           Taus.tau_exit_prob(b, e)                  *)
(*   kin      {E, f, g, bt, Esh}  Taus.__call__ outputs                     *)
(*   dec      {beta, g, bt, u, L, alt, R}   EAS.altDec                      *)
(*   decpair  {beta, g, bt, R, u1, L1, alt1, u2, L2, alt2, beta3, alt3}     *)
(***************************************************************************)
EXTENDS TraceKit, TauTables, Kinematics

VARIABLE prev      \* last z event: <<grp, u, z>> (monotonicity inside a group of equal (e, b))
T12 == FDec("1e-12")
T9  == FDec("1e-9")

CheckZ(e) ==
    Fails(<< <<"C04 F(z | E_nu, beta) = u (bilinear CDF, forward map)",
               InAxis(CZ, e.z) /\ FClose(F(e.z, e.e, e.b), e.u, FZero, T12)>>,
             <<"C04 z inside the tabulated fraction range (tau energy <= neutrino energy)",
               FLe(ZMin, e.z) /\ FLe(e.z, ZMax) /\ FLe(e.z, FOne)>>,
             <<"C04 z non-decreasing in u",
               ~(prev # <<>> /\ prev[1] = e.grp /\ FLe(prev[2], e.u)) \/ FLe(prev[3], e.z)>> >>)

CheckEtau(e) ==
    IF AboveTable(e.b)
    THEN Fails(<< <<"C04 angles above the tabulated maximum yield a negligible energy (1.19e-7 E_nu)",
                    FClose(e.E, FMul(Eps32, FPow(Ten, e.e)), T12, FZero)>> >>)
    ELSE LET zz == FDiv(e.E, FPow(Ten, e.e)) IN
         Fails(<< <<"C04 E_tau = z 10^log_e_nu with F(z | E_nu, clamp(beta)) = u",
                    InAxis(CZ, zz) /\ FClose(F(zz, e.e, e.b), e.u, FZero, FDec("1e-11"))>>,
                  <<"C04 the tau never carries more energy than the neutrino",
                    FLe(e.E, FMul(FPow(Ten, e.e), FDec("1.0000000000001")))>> >>)

CheckReject(e) ==
    Fails(<< <<"C04/C05 energies outside the table range are rejected with an error", EnergyInTable(e.e) \/ e.raised>>,
             <<"C04/C05 energies inside the table range are accepted", ~EnergyInTable(e.e) \/ ~e.raised>> >>)

CheckPexit(e) ==
    LET p == Pexit(e.e, e.b) IN
    Fails(<< <<"C05 exit probability = 10^bilerp(log10 table) with clamp and floor rules",
               (* above the table the property fixes the floor only as "1.19e-7": the implementation's value is      *)
               (* 10^(binary32 log10 of the binary32 epsilon) = 1.19209175e-7, accepted to 1e-5                       *)
               IF FGt(e.b, BetaMaxP) THEN FClose(e.p, p, FDec("1e-5"), FZero) ELSE FClose(e.p, p, T12, FZero)>>,
             <<"C05 between the smallest and largest surrounding nodes",
               FGt(e.b, BetaMaxP) \/ (FLe(FMul(PexitLo(e.e, e.b), FDec("0.999999999999")), e.p)
                                      /\ FLe(e.p, FMul(PexitHi(e.e, e.b), FDec("1.000000000001"))))>>,
             <<"C05 in (0, 1]", FGt(e.p, FZero) /\ FLe(e.p, FOne)>> >>)

CheckKin(e) ==
    Fails(<< <<"C07 Lorentz factor = E / m_tau", FClose(e.g, Gamma(e.E), T12, FZero)>>,
             <<"C07 Lorentz factor >= 1", FGe(e.g, FOne)>>,
             <<"C07 speed = sqrt(1 - 1/gamma^2)", FClose(e.bt, BetaTau(e.g), T12, FZero)>>,
             <<"C07 speed in (0, 1]", FGt(e.bt, FZero) /\ FLe(e.bt, FOne)>>,
             <<"C07 shower energy = fraction x E_tau / 1e8", FClose(e.Esh, ShowerE(e.E, e.f), T12, FZero)>> >>)

CheckDec(e) ==
    Fails(<< <<"C07 decay length = -gamma beta c tau0 ln u", FClose(e.L, DecayLen(e.g, e.bt, e.u), FDec("1e-9"), FZero)>>,
             <<"C07 decay length >= 0", FGe(e.L, FZero)>>,
             <<"C07 exponential law: exp(-L / mean) = u", FEq(e.u, FZero) \/ FClose(Survival(e.L, e.g, e.bt), e.u, FDec("1e-9"), FDec("1e-300"))>>,
             <<"C07 decay altitude = altitude at distance L along the straight line at the emergence angle",
               FClose(e.alt, Altitude(e.L, e.beta, e.R), FDec("1e-9"), FDec("1e-9"))>>,
             <<"C07 decay altitude >= 0 (to rounding)", FGe(e.alt, FDec("-1e-9"))>> >>)

CheckDecPair(e) ==
    Fails(<< <<"C07 decay length decreasing in u", ~FLt(e.u1, e.u2) \/ FGe(e.L1, e.L2)>>,
             <<"C07 decay altitude increasing in length", ~FLt(e.L2, e.L1) \/ FGe(e.alt1, FSub(e.alt2, FDec("1e-9")))>>,
             <<"C07 decay altitude increasing in emergence angle", ~FLt(e.beta, e.beta3) \/ FGe(e.alt3, FSub(e.alt1, FDec("1e-9")))>> >>)

(* the sampler on a synthetic grid carried by the event itself *)
CheckZSyn(e) ==
    Fails(<< <<"C04 (synthetic grid) F(z | e, b) = u", InAxis(e.T.z, e.zz) /\ FClose(FT(e.T, e.zz, e.e, e.b), e.u, FZero, T12)>>,
             <<"C18 row-wise interpolation = ordinary piecewise-linear interpolation on a non-decreasing row",
               ~e.node \/ FClose(e.zz, Inverse(e.row, e.T.z, e.u), T12, T12)>> >>)

(* the alternative samplers of cdf.py (not used by the simulator's tau stage; beyond C04: EXT clauses) *)
NearestNode(ax, b) == CHOOSE j \in 1..Len(ax) : \A k \in 1..Len(ax) : FLe(FAbs(FSub(b, ax[j])), FAbs(FSub(b, ax[k])))
CheckZAlt(e) ==
    IF e.sampler = "lerp"
    THEN Fails(<< <<"EXT: lerp_cdf_sampler(grid, E)(beta, u): F(z | E, beta) = u",
                    InAxis(CZ, e.z) /\ FClose(FT(Tab.cdf, e.z, e.e, e.b), e.u, FZero, T12)>> >>)
    ELSE Fails(<< <<"EXT: nearest_cdf_sampler(grid, E)(beta, u): F(z | E, nearest tabulated beta) = u",
                    InAxis(CZ, e.z) /\ FClose(FT(Tab.cdf, e.z, e.e, CB[NearestNode(CB, e.b)]), e.u, FZero, T12)>> >>)

Check(e) ==
    CASE e.kind = "z" -> CheckZ(e)
      [] e.kind = "zalt" -> CheckZAlt(e)
      [] e.kind = "zsyn" -> CheckZSyn(e)
      [] e.kind = "etau" -> CheckEtau(e)
      [] e.kind = "reject" -> CheckReject(e)
      [] e.kind = "explicit" -> Fails(<< <<"C04 explicit random numbers give, event by event, what the internal generator gives for them",
                                             e.zint = e.zexp>> >>)
      [] e.kind = "explicit_ext" -> Fails(<< <<"EXT: altDec with explicit u gives what the internal generator gives for those numbers (u <-> -ln u)",
                                                 \A i \in 1..Len(e.zint) : FClose(e.zint[i], e.zexp[i], FDec("1e-12"), FDec("1e-12"))>> >>)
      [] e.kind = "pexit" -> CheckPexit(e)
      [] e.kind = "kin" -> CheckKin(e)
      [] e.kind = "dec" -> CheckDec(e)
      [] e.kind = "decpair" -> CheckDecPair(e)
      [] OTHER -> <<"unknown event kind">>

TInit == TKInit /\ prev = <<>>
TNext == /\ TKAdvance
         /\ prev' = IF Ev.kind = "z" THEN <<Ev.grp, Ev.u, Ev.z>> ELSE prev
         /\ TKRecord(Check(Ev))
TSpec == TInit /\ [][TNext]_<<tkvars, prev>>
=============================================================================
