---------------------------- MODULE TraceConfig ----------------------------
(* Trace validation of the configuration model against ConfigModel.tla (C15).                                      *)
(*  unit  {field, form, unit, v, accepted, stored}   one dimensional field set from one input form                  *)
(*  band  {lo, hi, accepted}                         radio band validation                                          *)
(*  month {form, n, s, accepted, month}              pressure-map month input                                       *)
(*  rt    {variant, ok, fields}                      create_toml -> config_from_toml of one configuration variant;  *)
(*        fields = sequence of <<name, kind, before, after>>, kind "a" angle-like float, "n" other number, "s" token *)
EXTENDS TraceKit, ConfigModel

FieldSame(f) == CASE f[2] = "a" -> FUlps(f[3], f[4]) <= 4
                  [] f[2] = "n" -> f[3] = f[4]
                  [] OTHER -> f[3] = f[4]

Check(e) ==
    CASE e.kind = "unit" ->
        LET inp == [form |-> e.form, unit |-> e.unit, v |-> e.v] IN
        Fails(<< <<"C15 a quantity is accepted exactly when its unit is convertible to the field's canonical unit (bare numbers always)",
                   e.accepted <=> Accepts(e.field, inp)>>,
                 <<"C15 the stored value is the value in the canonical unit (km, rad, m2, MHz, dB)",
                   ~e.accepted \/ ~Accepts(e.field, inp) \/ FUlps(e.stored, Stored(e.field, inp)) <= 4>> >>)
      [] e.kind = "band" -> Fails(<< <<"C15 an inverted or empty frequency band is rejected", e.accepted <=> BandOK(e.lo, e.hi)>> >>)
      [] e.kind = "month" ->
        LET inp == [form |-> e.form, n |-> e.n, s |-> e.s] IN
        Fails(<< <<"C15 months: number, name or abbreviation accepted; numbers outside 1-12 and unparseable names rejected",
                   e.accepted <=> MonthAccepted(inp)>>,
                 <<"C15 accepted month has the right number", ~e.accepted \/ ~MonthAccepted(inp) \/ e.month = MonthOf(inp)>> >>)
      [] e.kind = "rt" ->
        Fails(<< <<"C15 every valid configuration can be written to TOML and read back", e.ok>>,
                 <<"C15 the configuration read back equals the one written (angles to a few ulp, everything else exactly)",
                   ~e.ok \/ \A i \in 1..Len(e.fields) : FieldSame(e.fields[i])>>,
                 <<"C15 the configuration read back has the same fields", ~e.ok \/ e.nbefore = e.nafter>> >>)
      [] OTHER -> <<"unknown event kind">>

TInit == TKInit
TNext == TKStep(Check)
TSpec == TInit /\ [][TNext]_tkvars
=============================================================================
