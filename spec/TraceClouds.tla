---------------------------- MODULE TraceClouds ----------------------------
(* Trace validation of CloudTopHeight(config)(lat, long) and CphotAng.run(..., cloudf) against Clouds.tla (C09). *)
(*   kern {top, zsFirst, zsPen, d, th, d0, th0}   one event with cloud top `top` vs the cloud-free result           *)
(*   const{model, value, want, ref}               no-cloud / uniform-cloud model at some (lat, long)              *)
(*   map  {lat, lon, value}                       pressure-map model (month fixed per trace file)                 *)
EXTENDS TraceKit, Clouds, FiniteSets

Check(e) ==
    CASE e.kind = "kern" ->
        LET r == Regime(e.top, e.zsFirst, e.zsPen) IN
        Fails(<< <<"C09 cloud top below the first shower segment: bit-identical to the cloud-free result",
                   r # "below" \/ (e.d = e.d0 /\ e.th = e.th0)>>,
                 <<"C09 cloud top above the penultimate segment: exactly zero",
                   r # "above" \/ (FEq(e.d, FZero) /\ FEq(e.th, FZero))>>,
                 <<"C09 in between: finite and non-negative", r # "between" \/ (FIsFinite(e.d) /\ FGe(e.d, FZero) /\ FIsFinite(e.th) /\ FGe(e.th, FZero))>> >>)
      [] e.kind = "const" ->
        Fails(<< <<"C09 constant cloud models return the same cloud top everywhere", e.value = e.ref>>,
                 <<"C09 uniform cloud returns the configured altitude (single precision)",
                   e.model # "mono" \/ FClose(e.value, e.want, FDec("1e-6"), FZero) \/ e.value = e.want>> >>)
      [] e.kind = "map" ->
        Fails(<< <<"C09 pressure map: standard-atmosphere altitude of the map pressure at a corner of the cell containing (lat, long)",
                   \E c \in NearbyCornerAltitudes(e.lat, e.lon) : FClose(e.value, c, FDec("1e-9"), FDec("1e-9"))>> >>)
      [] OTHER -> <<"unknown event kind">>

TInit == TKInit
TNext == TKStep(Check)
TSpec == TInit /\ [][TNext]_tkvars
=============================================================================
