------------------------------- MODULE TLAPS --------------------------------

(* Backend pragmas. *)


(***************************************************************************)
(* Each of these pragmas can be cited with a BY or a USE.  The pragma that *)
(* is added to the context of an obligation most recently is the one whose *)
(* effects are triggered.                                                  *)
(***************************************************************************)

(***************************************************************************)
(* The following pragmas should be used only as a last resource.  They are *)
(* dependent upon the particular backend provers, and are unlikely to have *)
(* any effect if the set of backend provers changes.  Moreover, they are   *)
(* meaningless to a reader of the proof.                                   *)
(***************************************************************************)


(**************************************************************************)
(* Backend pragma: use the SMT solver for arithmetic.                     *)
(*                                                                        *)
(* This method exists under this name for historical reasons.             *)
(**************************************************************************)

SimpleArithmetic == TRUE (*{ by (prover:"smt3") }*)


(**************************************************************************)
(* Backend pragma: SMT solver                                             *)
(*                                                                        *)
(* This method translates the proof obligation to SMTLIB2. The supported  *)
(* fragment includes first-order logic, set theory, functions and         *)
(* records.                                                               *)
(* SMT calls the smt-solver with the default timeout of 5 seconds         *)
(* while SMTT(n) calls the smt-solver with a timeout of n seconds.        *)
(*                                                                        *)
(* SMTT also accepts a string argument of the form "rN" to bound the      *)
(* underlying Z3 solver by a deterministic `rlimit` budget instead of a    *)
(* wall-clock timeout, e.g. SMTT("r5"). N is a multiple of a fixed base    *)
(* resource count, so a small readable budget like "r5" is meaningful.     *)
(* Unlike a wall-clock timeout, an `rlimit` budget does not depend on CPU  *)
(* speed or load, so the proof's pass/fail outcome reproduces on any       *)
(* machine and every rerun (for a fixed Z3 build); how long it takes to    *)
(* consume the budget still varies by machine. This is Z3-specific.        *)
(**************************************************************************)

SMT == TRUE (*{ by (prover:"smt3") }*)
SMTT(X) == TRUE (*{ by (prover:"smt3"; timeout:@) }*)


(**************************************************************************)
(* Backend pragma: CVC4 SMT solver                                        *)
(*                                                                        *)
(* These methods translate the proof obligation to SMTLIB2 and call CVC4. *)
(**************************************************************************)

(* The CVC3* methods are here for backward compatibility. They call CVC4. *)
CVC3 == TRUE (*{ by (prover: "cvc33") }*)
CVC3T(X) == TRUE (*{ by (prover:"cvc33"; timeout:@) }*)

CVC4 == TRUE (*{ by (prover: "cvc33") }*)
CVC4T(X) == TRUE (*{ by (prover:"cvc33"; timeout:@) }*)


(**************************************************************************)
(* Backend pragma: Yices SMT solver                                       *)
(*                                                                        *)
(* This method translates the proof obligation to Yices native language.  *)
(**************************************************************************)

Yices == TRUE (*{ by (prover: "yices3") }*)
YicesT(X) == TRUE (*{ by (prover:"yices3"; timeout:@) }*)

(**************************************************************************)
(* Backend pragma: veriT SMT solver                                       *)
(*                                                                        *)
(* This method translates the proof obligation to SMTLIB2 and calls veriT.*)
(**************************************************************************)

veriT == TRUE (*{ by (prover: "verit") }*)
veriTT(X) == TRUE (*{ by (prover:"verit"; timeout:@) }*)

(**************************************************************************)
(* Backend pragma: Zipperposition solver                                  *)
(*                                                                        *)
(* This method translates the proof obligation to TPTP and                *)
(* calls Zipperposition.                                                  *)
(**************************************************************************)

Zipper == TRUE (*{ by (prover: "zipper") }*)
ZipperT(X) == TRUE (*{ by (prover:"zipper"; timeout:@) }*)

(**************************************************************************)
(* Backend pragma: Z3 SMT solver                                          *)
(*                                                                        *)
(* This method translates the proof obligation to SMTLIB2 and calls Z3.   *)
(* Z3 is used by default but you can also explicitly call it.             *)
(* Z3T(n) bounds Z3 by a wall-clock timeout of n seconds, while Z3T("rN")  *)
(* bounds it by a deterministic `rlimit` budget of N base units, which      *)
(* reproduces the same outcome on any machine (see SMTT).                   *)
(**************************************************************************)

Z3 == TRUE (*{ by (prover: "z33") }*)
Z3T(X) == TRUE (*{ by (prover:"z33"; timeout:@) }*)

(**************************************************************************)
(* Backend pragma: SPASS superposition prover                             *)
(*                                                                        *)
(* This method translates the proof obligation to the DFG format language *)
(* supported by the ATP SPASS. The translation is based on the SMT one.   *)
(**************************************************************************)

Spass == TRUE (*{ by (prover: "spass") }*)
SpassT(X) == TRUE (*{ by (prover:"spass"; timeout:@) }*)

(**************************************************************************)
(* Backend pragma: The PTL propositional linear time temporal logic       *)
(* prover.  It currently is the LS4 backend.                              *)
(*                                                                        *)
(* This method translates the negetation of the proof obligation to       *)
(* Seperated Normal Form (TRP++ format) and checks for unsatisfiability   *)
(**************************************************************************)

LS4 == TRUE (*{ by (prover: "ls4") }*)
LS4T(X) == TRUE (*{ by (prover: "ls4"; timeout:@) }*)
PTL == TRUE (*{ by (prover: "ls4") }*)

(**************************************************************************)
(* Backend pragma: Zenon with different timeouts (default is 10 seconds)  *)
(*                                                                        *)
(**************************************************************************)

Zenon == TRUE (*{ by (prover:"zenon") }*)
ZenonT(X) == TRUE (*{ by (prover:"zenon"; timeout:@) }*)

(********************************************************************)
(* Backend pragma: Isabelle with different timeouts and tactics     *)
(*  (default is 30 seconds/auto)                                    *)
(********************************************************************)

Isa == TRUE (*{ by (prover:"isabelle") }*)
IsaT(X) ==  TRUE (*{ by (prover:"isabelle"; timeout:@) }*)
IsaM(X) ==  TRUE (*{ by (prover:"isabelle"; tactic:@) }*)
IsaMT(X,Y) ==  TRUE (*{ by (prover:"isabelle"; tactic:@; timeout:@) }*)

(***************************************************************************)
(* The following theorem expresses the (useful implication of the) law of  *)
(* set extensionality, which can be written as                             *)
(*                                                                         *)
(*    THEOREM  \A S, T : (S = T) <=> (\A x : (x \in S) <=> (x \in T))      *)
(*                                                                         *)
(* Theorem SetExtensionality is sometimes required by the SMT backend for  *)
(* reasoning about sets. It is usually counterproductive to include        *)
(* theorem SetExtensionality in a BY clause for the Zenon or Isabelle      *)
(* backends. Instead, use the pragma IsaWithSetExtensionality to instruct  *)
(* the Isabelle backend to use the rule of set extensionality.             *)
(***************************************************************************)
IsaWithSetExtensionality == TRUE
           (*{ by (prover:"isabelle"; tactic:"(auto intro: setEqualI)")}*)

THEOREM SetExtensionality == \A S,T : (\A x : x \in S <=> x \in T) => S = T
OBVIOUS

(***************************************************************************)
(* The following theorem is needed to deduce NotInSetS \notin SetS from    *)
(* the definition                                                          *)
(*                                                                         *)
(*   NotInSetS == CHOOSE v : v \notin SetS                                 *)
(***************************************************************************)
THEOREM NoSetContainsEverything == \A S : \E x : x \notin S
OBVIOUS (*{by (isabelle "(auto intro: inIrrefl)")}*)
-----------------------------------------------------------------------------



(********************************************************************)
(********************************************************************)
(********************************************************************)


(********************************************************************)
(* Old versions of Zenon and Isabelle pragmas below                 *)
(* (kept for compatibility)                                         *)
(********************************************************************)


(**************************************************************************)
(* Backend pragma: Zenon with different timeouts (default is 10 seconds)  *)
(*                                                                        *)
(**************************************************************************)

SlowZenon == TRUE (*{ by (prover:"zenon"; timeout:20) }*)
SlowerZenon == TRUE (*{ by (prover:"zenon"; timeout:40) }*)
VerySlowZenon == TRUE (*{ by (prover:"zenon"; timeout:80) }*)
SlowestZenon == TRUE (*{ by (prover:"zenon"; timeout:160) }*)



(********************************************************************)
(* Backend pragma: Isabelle's automatic search ("auto")             *)
(*                                                                  *)
(* This pragma bypasses Zenon. It is useful in situations involving *)
(* essentially simplification and equational reasoning.             *)
(* Default imeout for all isabelle tactics is 30 seconds.           *)
(********************************************************************)
Auto == TRUE (*{ by (prover:"isabelle"; tactic:"auto") }*)
SlowAuto == TRUE (*{ by (prover:"isabelle"; tactic:"auto"; timeout:120) }*)
SlowerAuto == TRUE (*{ by (prover:"isabelle"; tactic:"auto"; timeout:480) }*)
SlowestAuto == TRUE (*{ by (prover:"isabelle"; tactic:"auto"; timeout:960) }*)

(********************************************************************)
(* Backend pragma: Isabelle's "force" tactic                        *)
(*                                                                  *)
(* This pragma bypasses Zenon. It is useful in situations involving *)
(* quantifier reasoning.                                            *)
(********************************************************************)
Force == TRUE (*{ by (prover:"isabelle"; tactic:"force") }*)
SlowForce == TRUE (*{ by (prover:"isabelle"; tactic:"force"; timeout:120) }*)
SlowerForce == TRUE (*{ by (prover:"isabelle"; tactic:"force"; timeout:480) }*)
SlowestForce == TRUE (*{ by (prover:"isabelle"; tactic:"force"; timeout:960) }*)

(***********************************************************************)
(* Backend pragma: Isabelle's "simplification" tactics                 *)
(*                                                                     *)
(* These tactics simplify the goal before running one of the automated *)
(* tactics. They are often necessary for obligations involving record  *)
(* or tuple projections. Use the SimplfyAndSolve tactic unless you're  *)
(* sure you can get away with just Simplification                      *)
(***********************************************************************)
SimplifyAndSolve        == TRUE
    (*{ by (prover:"isabelle"; tactic:"clarsimp auto?") }*)
SlowSimplifyAndSolve    == TRUE
    (*{ by (prover:"isabelle"; tactic:"clarsimp auto?"; timeout:120) }*)
SlowerSimplifyAndSolve  == TRUE
    (*{ by (prover:"isabelle"; tactic:"clarsimp auto?"; timeout:480) }*)
SlowestSimplifyAndSolve == TRUE
    (*{ by (prover:"isabelle"; tactic:"clarsimp auto?"; timeout:960) }*)

Simplification == TRUE (*{ by (prover:"isabelle"; tactic:"clarsimp") }*)
SlowSimplification == TRUE
    (*{ by (prover:"isabelle"; tactic:"clarsimp"; timeout:120) }*)
SlowerSimplification  == TRUE
    (*{ by (prover:"isabelle"; tactic:"clarsimp"; timeout:480) }*)
SlowestSimplification == TRUE
    (*{ by (prover:"isabelle"; tactic:"clarsimp"; timeout:960) }*)

(**************************************************************************)
(* Backend pragma: Isabelle's tableau prover ("blast")                    *)
(*                                                                        *)
(* This pragma bypasses Zenon and uses Isabelle's built-in theorem        *)
(* prover, Blast. It is almost never better than Zenon by itself, but     *)
(* becomes very useful in combination with the Auto pragma above. The     *)
(* AutoBlast pragma first attempts Auto and then uses Blast to prove what *)
(* Auto could not prove. (There is currently no way to use Zenon on the   *)
(* results left over from Auto.)                                          *)
(**************************************************************************)
Blast == TRUE (*{ by (prover:"isabelle"; tactic:"blast") }*)
SlowBlast == TRUE (*{ by (prover:"isabelle"; tactic:"blast"; timeout:120) }*)
SlowerBlast == TRUE (*{ by (prover:"isabelle"; tactic:"blast"; timeout:480) }*)
SlowestBlast == TRUE (*{ by (prover:"isabelle"; tactic:"blast"; timeout:960) }*)

AutoBlast == TRUE (*{ by (prover:"isabelle"; tactic:"auto, blast") }*)


(**************************************************************************)
(* Backend pragmas: multi-back-ends                                       *)
(*                                                                        *)
(* These pragmas just run a bunch of back-ends one after the other in the *)
(* hope that one will succeed. This saves time and effort for the user at *)
(* the expense of computation time.                                       *)
(**************************************************************************)

(* CVC3 goes first because it's bundled with TLAPS, then the other SMT
   solvers are unlikely to succeed if CVC3 fails, so we run zenon and
   Isabelle before them. *)
AllProvers == TRUE (*{
    by (prover:"cvc33")
    by (prover:"zenon")
    by (prover:"isabelle"; tactic:"auto")
    by (prover:"spass")
    by (prover:"smt3")
    by (prover:"yices3")
    by (prover:"verit")
    by (prover:"z33")
    by (prover:"isabelle"; tactic:"force")
    by (prover:"isabelle"; tactic:"(auto intro: setEqualI)")
    by (prover:"isabelle"; tactic:"clarsimp auto?")
    by (prover:"isabelle"; tactic:"clarsimp")
    by (prover:"isabelle"; tactic:"auto, blast")
  }*)
AllProversT(X) == TRUE (*{
    by (prover:"cvc33"; timeout:@)
    by (prover:"zenon"; timeout:@)
    by (prover:"isabelle"; tactic:"auto"; timeout:@)
    by (prover:"spass"; timeout:@)
    by (prover:"smt3"; timeout:@)
    by (prover:"yices3"; timeout:@)
    by (prover:"verit"; timeout:@)
    by (prover:"z33"; timeout:@)
    by (prover:"isabelle"; tactic:"force"; timeout:@)
    by (prover:"isabelle"; tactic:"(auto intro: setEqualI)"; timeout:@)
    by (prover:"isabelle"; tactic:"clarsimp auto?"; timeout:@)
    by (prover:"isabelle"; tactic:"clarsimp"; timeout:@)
    by (prover:"isabelle"; tactic:"auto, blast"; timeout:@)
  }*)

AllSMT == TRUE (*{
    by (prover:"cvc33")
    by (prover:"smt3")
    by (prover:"yices3")
    by (prover:"verit")
    by (prover:"z33")
  }*)
AllSMTT(X) == TRUE (*{
    by (prover:"cvc33"; timeout:@)
    by (prover:"smt3"; timeout:@)
    by (prover:"yices3"; timeout:@)
    by (prover:"verit"; timeout:@)
    by (prover:"z33"; timeout:@)
  }*)

AllIsa == TRUE (*{
    by (prover:"isabelle"; tactic:"auto")
    by (prover:"isabelle"; tactic:"force")
    by (prover:"isabelle"; tactic:"(auto intro: setEqualI)")
    by (prover:"isabelle"; tactic:"clarsimp auto?")
    by (prover:"isabelle"; tactic:"clarsimp")
    by (prover:"isabelle"; tactic:"auto, blast")
  }*)
AllIsaT(X) == TRUE (*{
    by (prover:"isabelle"; tactic:"auto"; timeout:@)
    by (prover:"isabelle"; tactic:"force"; timeout:@)
    by (prover:"isabelle"; tactic:"(auto intro: setEqualI)"; timeout:@)
    by (prover:"isabelle"; tactic:"clarsimp auto?"; timeout:@)
    by (prover:"isabelle"; tactic:"clarsimp"; timeout:@)
    by (prover:"isabelle"; tactic:"auto, blast"; timeout:@)
  }*)


(**************************************************************************)
(* The pragma ExpandEnabled invokes expansion of the operator ENABLED.    *)
(*                                                                        *)
(* The pragma ExpandCdot invokes expansion of the operator \cdot.         *)
(*                                                                        *)
(* The pragma AutoUSE invokes automated expansion of definitions,         *)
(* for both of ExpandEnabled and ExpandCdot, when each is present.        *)
(*                                                                        *)
(* The pragma Lambdify invokes expansion of the operators                 *)
(* ENABLED and \cdot to an intermediate form with bound VARIABLES,        *)
(* which is a form before introducing rigid quantifiers.                  *)
(* The pragma Lambdify is sound for occurrences of ENABLED and \cdot      *)
(* that are not nested.                                                   *)
(**************************************************************************)
ExpandENABLED == TRUE  (*{ by (prover:"expandenabled") }*)
ExpandCdot == TRUE  (*{ by (prover:"expandcdot") }*)
AutoUSE == TRUE  (*{ by (prover:"autouse") }*)
Lambdify == TRUE  (*{ by (prover:"lambdify") }*)
ENABLEDaxioms == TRUE  (*{ by (prover:"enabledaxioms") }*)
LevelComparison == TRUE  (*{ by (prover:"levelcomparison") }*)

(* The operators EnabledWrapper and CdotWrapper occur in an intermediate  *)
(* representation within TLAPM.                                           *)
EnabledWrapper(Op(_)) == FALSE
CdotWrapper(Op(_)) == FALSE

(***************************************************************************)
(* The following may be used in a `BY ONLY ThmName` for unit testing the   *)
(* triviality checks in TLAPM.                                             *)
(***************************************************************************)
Trivial == TRUE  (*{ by (prover:"trivial") }*)


=============================================================================

The material below is obsolete: the TLA proof rules below are superseded by
the PTL decision procedure, and their formulation is unsound for the semantics
of temporal reasoning that TLAPS adopts.

----------------------------------------------------------------------------
(***************************************************************************)
(*                           TEMPORAL LOGIC                                *)
(*                                                                         *)
(* The following rules are intended to be used when TLAPS handles temporal *)
(* logic.  They will not work now.  Moreover when temporal reasoning is    *)
(* implemented, these rules may be changed or omitted, and additional      *)
(* rules will probably be added.  However, they are included mainly so     *)
(* their names will be defined, preventing the use of identifiers that are *)
(* likely to produce name clashes with future versions of this module.     *)
(***************************************************************************)


(***************************************************************************)
(* The following proof rules (and their names) are from the paper "The     *)
(* Temporal Logic of Actions".                                             *)
(***************************************************************************)
THEOREM RuleTLA1 == ASSUME STATE P, STATE f,
                           P /\ (f' = f) => P'
                    PROVE  []P <=> P /\ [][P => P']_f

THEOREM RuleTLA2 == ASSUME STATE P, STATE Q, STATE f, STATE g,
                           ACTION A, ACTION B,
                           P /\ [A]_f => Q /\ [B]_g
                    PROVE  []P /\ [][A]_f => []Q /\ [][B]_g

THEOREM RuleINV1 == ASSUME STATE I, STATE F,  ACTION N,
                           I /\ [N]_F => I'
                    PROVE  I /\ [][N]_F => []I

THEOREM RuleINV2 == ASSUME STATE I, STATE f, ACTION N
                    PROVE  []I => ([][N]_f <=> [][N /\ I /\ I']_f)

THEOREM RuleWF1 == ASSUME STATE P, STATE Q, STATE f, ACTION N, ACTION A,
                          P /\ [N]_f => (P' \/ Q'),
                          P /\ <<N /\ A>>_f => Q',
                          P => ENABLED <<A>>_f
                   PROVE  [][N]_f /\ WF_f(A) => (P ~> Q)

THEOREM RuleSF1 == ASSUME STATE P, STATE Q, STATE f,
                          ACTION N, ACTION A, TEMPORAL F,
                          P /\ [N]_f => (P' \/ Q'),
                          P /\ <<N /\ A>>_f => Q',
                          []P /\ [][N]_f /\ []F => <> ENABLED <<A>>_f
                   PROVE  [][N]_f /\ SF_f(A) /\ []F => (P ~> Q)

(***************************************************************************)
(* The rules WF2 and SF2 in "The Temporal Logic of Actions" are obtained   *)
(* from the following two rules by the following substitutions: `.         *)
(*                                                                         *)
(*          ___        ___         _______________                         *)
(*      M <- M ,   g <- g ,  EM <- ENABLED <<M>>_g       .'                *)
(***************************************************************************)
THEOREM RuleWF2 == ASSUME STATE P, STATE f, STATE g, STATE EM,
                          ACTION A, ACTION B, ACTION N, ACTION M,
                          TEMPORAL F,
                          <<N /\ B>>_f => <<M>>_g,
                          P /\ P' /\ <<N /\ A>>_f /\ EM => B,
                          P /\ EM => ENABLED A,
                          [][N /\ ~B]_f /\ WF_f(A) /\ []F /\ <>[]EM => <>[]P
                   PROVE  [][N]_f /\ WF_f(A) /\ []F => []<><<M>>_g \/ []<>(~EM)

THEOREM RuleSF2 == ASSUME STATE P, STATE f, STATE g, STATE EM,
                          ACTION A, ACTION B, ACTION N, ACTION M,
                          TEMPORAL F,
                          <<N /\ B>>_f => <<M>>_g,
                          P /\ P' /\ <<N /\ A>>_f /\ EM => B,
                          P /\ EM => ENABLED A,
                          [][N /\ ~B]_f /\ SF_f(A) /\ []F /\ []<>EM => <>[]P
                   PROVE  [][N]_f /\ SF_f(A) /\ []F => []<><<M>>_g \/ <>[](~EM)


(***************************************************************************)
(* The following rule is a special case of the general temporal logic      *)
(* proof rule STL4 from the paper "The Temporal Logic of Actions".  The    *)
(* general rule is for arbitrary temporal formulas F and G, but it cannot  *)
(* yet be handled by TLAPS.                                                *)
(***************************************************************************)
THEOREM RuleInvImplication ==
  ASSUME STATE F, STATE G,
         F => G
  PROVE  []F => []G
PROOF OMITTED

(***************************************************************************)
(* The following rule is a special case of rule TLA2 from the paper "The   *)
(* Temporal Logic of Actions".                                             *)
(***************************************************************************)
THEOREM RuleStepSimulation ==
  ASSUME STATE I, STATE f, STATE g,
         ACTION M, ACTION N,
         I /\ I' /\ [M]_f => [N]_g
  PROVE  []I /\ [][M]_f => [][N]_g
PROOF OMITTED

(***************************************************************************)
(* The following may be used to invoke a decision procedure for            *)
(* propositional temporal logic.                                           *)
(***************************************************************************)
PropositionalTemporalLogic == TRUE
=============================================================================
