SPECIFICATION MCSpec
CONSTANT Leaky = TRUE
INVARIANT InvR
INVARIANT InvIOpt
INVARIANT InvIRad
CONSTRAINT Bound
CHECK_DEADLOCK FALSE
