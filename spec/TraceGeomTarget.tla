-------------------------- MODULE TraceGeomTarget --------------------------
(* Trace validation of RegionGeomToO.throw / __call__ and ToOEvent.sun_moon_cut  *)
(* against GeomTarget.tla (C13).                                                 *)
(*   inst {k, N, T, tsec, alt, H, R, limb, kept, beta, theta, path}  one instant  *)
(*        alt = source altitude computed by the harness with astropy from the     *)
(*        configuration values; kept/beta/theta/path as reported by the code      *)
(*   sky  {sunAlt, moonAlt, phase, sunCut, moonCut, minPhase, dark}               *)
(*   ret  {nkept, nret}   number kept vs lengths of the __call__ return arrays    *)
EXTENDS TraceKit, GeomTarget, Sequences

Eps == FDec("1e-9")
NearKeep(e) == LET a == Nadir(e.alt) IN
               \/ FLe(FAbs(FSub(a, AlphaHorizon(e.H, e.R))), Eps)
               \/ (Occulted(e.alt, e.H, e.R) /\ FLe(FAbs(FSub(Beta(a, e.H, e.R), BetaLimit(e.H, e.R, e.limb))), Eps))
NearDark(e) == \/ FLe(FAbs(FSub(e.sunAlt, e.sunCut)), Eps) \/ FLe(FAbs(FSub(e.moonAlt, e.moonCut)), Eps)
               \/ FLe(FAbs(FSub(e.phase, e.minPhase)), Eps)

CheckInst(e) ==
    Fails(<< <<"C13 instants are N equally spaced times covering [t0, t0 + T)",
               FLe(FAbs(FSub(e.tsec, Offset(e.k, e.N, e.T))), FDec("1e-6"))>>,
             <<"C13 kept exactly when occulted and emergence angle < min(42 deg, limb limit)",
               NearKeep(e) \/ (e.kept <=> Kept(e.alt, e.H, e.R, e.limb))>> >>
          \o (IF e.kept THEN
             << <<"C13 source nadir angle = 90 deg + source altitude", FClose(e.theta, Nadir(e.alt), Eps, Eps)>>,
                <<"C13 emergence angle satisfies the triangle: cos(beta) = (H/R) sin(nadir)",
                  FClose(e.beta, Beta(e.theta, e.H, e.R), FDec("1e-7"), FDec("1e-9"))>>,
                <<"C13 ground spot at the path length along the line of sight lies on the Earth's surface",
                  FClose(SpotRadius(e.theta, e.path, e.H), e.R, Eps, FZero)>>,
                <<"C13 emergence angle = angle of the line of sight above the local horizontal at the spot",
                  FClose(SinEmergence(e.theta, e.path, e.H), FSin(e.beta), FDec("1e-7"), FDec("1e-9"))>> >>
             ELSE <<>>))

Check(e) ==
    CASE e.kind = "inst" -> CheckInst(e)
      [] e.kind = "sky" ->
           Fails(<< <<"C13 dark sky iff Sun below its limit and (Moon below its limit or phase angle above the minimum)",
                      NearDark(e) \/ (e.dark <=> Dark(e.sunAlt, e.moonAlt, e.phase, e.sunCut, e.moonCut, e.minPhase))>> >>)
      [] e.kind = "grid" ->
           Fails(<< <<"C13 exactly N instants", Len(e.tsec) = e.N>>,
                    <<"C13 instants are N equally spaced times covering [t0, t0 + T)",
                      \A k \in 1..Len(e.tsec) : FLe(FAbs(FSub(e.tsec[k], Offset(k - 1, e.N, e.T))), FDec("1e-6")) /\ FLt(e.tsec[k], e.T)>> >>)
      [] e.kind = "ret" -> Fails(<< <<"C13 the arrays returned for a throw have one entry per kept instant", e.nkept = e.nret>> >>)
      [] OTHER -> <<"unknown event kind">>

TInit == TKInit
TNext == TKStep(Check)
TSpec == TInit /\ [][TNext]_tkvars
=============================================================================
