------------------------------ MODULE Cherenkov ------------------------------
(***************************************************************************)
(* C06 (and the "in between" clause of C09).  The Cherenkov photon-yield    *)
(* model of an upward-going extensive air shower, in double precision, as   *)
(* a state machine over track steps (DESIGN Appendix A):                    *)
(*   load   the event (emergence angle, decay altitude, shower energy,      *)
(*          cloud top, detector altitude)                                   *)
(*   pass 1 0.1 km path steps along the curved-Earth track until z > 65 km: *)
(*          mid-step altitude, thickness, grammage, ozone, running columns  *)
(*   pass 2 per selected step (Greisen age / size masks): Cherenkov         *)
(*          threshold and angle, Hillas track-length fraction, distance to  *)
(*          the detector, 28-bin wavelength yield with Rayleigh / ozone /   *)
(*          aerosol transmission, Hillas angular integral over radial bins  *)
(*          x energy decades                                                *)
(*   reduce photon sum, yield-weighted mean angle and spread, Cherenkov     *)
(*          area at shower maximum, density, inverse-square scaling         *)
(* Written from the physical model as scalar folds, not as a transliteration *)
(* of the implementation's array code.                                      *)
(***************************************************************************)
EXTENDS Float64, Integers, Sequences, FiniteSets

(* numeric literals as cached constants (a zero-arity definition is evaluated once by TLC; FDec in an operator body would be parsed on every call) *)
K_m0p19505em04 == FDec("-0.19505e-04")
K_m0p21938em11 == FDec("-0.21938e-11")
K_m1p0em5 == FDec("-1.0e-5")
K_m1p2971 == FDec("-1.2971")
K_m11p861 == FDec("-11.861")
K_m1em3 == FDec("-1e-3")
K_m6p34 == FDec("-6.34")
K_0p000296 == FDec("0.000296")
K_0p001 == FDec("0.001")
K_0p002 == FDec("0.002")
K_0p003 == FDec("0.003")
K_0p004 == FDec("0.004")
K_0p0054 == FDec("0.0054")
K_0p006 == FDec("0.006")
K_0p007 == FDec("0.007")
K_0p010 == FDec("0.010")
K_0p012 == FDec("0.012")
K_0p015 == FDec("0.015")
K_0p017 == FDec("0.017")
K_0p020 == FDec("0.020")
K_0p023 == FDec("0.023")
K_0p026 == FDec("0.026")
K_0p029 == FDec("0.029")
K_0p032 == FDec("0.032")
K_0p035 == FDec("0.035")
K_0p038 == FDec("0.038")
K_0p042 == FDec("0.042")
K_0p045 == FDec("0.045")
K_0p049 == FDec("0.049")
K_0p055 == FDec("0.055")
K_0p065 == FDec("0.065")
K_0p086 == FDec("0.086")
K_0p091 == FDec("0.091")
K_0p1 == FDec("0.1")
K_0p136 == FDec("0.136")
K_0p158 == FDec("0.158")
K_0p19 == FDec("0.19")
K_0p19390em15 == FDec("0.19390e-15")
K_0p22046em01 == FDec("0.22046e-01")
K_0p250 == FDec("0.250")
K_0p31 == FDec("0.31")
K_0p380 == FDec("0.380")
K_0p4 == FDec("0.4")
K_0p478 == FDec("0.478")
K_0p5 == FDec("0.5")
K_0p511 == FDec("0.511")
K_0p59 == FDec("0.59")
K_0p5em5 == FDec("0.5e-5")
K_0p710 == FDec("0.710")
K_0p777 == FDec("0.777")
K_0p89 == FDec("0.89")
K_0p94394em08 == FDec("0.94394e-08")
K_0p96 == FDec("0.96")
K_1p2 == FDec("1.2")
K_1p3 == FDec("1.3")
K_1p46 == FDec("1.46")
K_1p5 == FDec("1.5")
K_10 == FDec("10")
K_10p2 == FDec("10.2")
K_10p9 == FDec("10.9")
K_100 == FDec("100")
K_101p8 == FDec("101.8")
K_1032p9414 == FDec("1032.9414")
K_110p5 == FDec("110.5")
K_12p5 == FDec("12.5")
K_13p841 == FDec("13.841")
K_137p04 == FDec("137.04")
K_14p75 == FDec("14.75")
K_15 == FDec("15")
K_15p4 == FDec("15.4")
K_189 == FDec("189")
K_19p15 == FDec("19.15")
K_1em4 == FDec("1e-4")
K_1em5 == FDec("1e-5")
K_1e3 == FDec("1e3")
K_1e5 == FDec("1e5")
K_1e8 == FDec("1e8")
K_23p55 == FDec("23.55")
K_260 == FDec("260")
K_273p2 == FDec("273.2")
K_28p1 == FDec("28.1")
K_28p920 == FDec("28.920")
K_29p4 == FDec("29.4")
K_291 == FDec("291")
K_2e12 == FDec("2e12")
K_3p1415926 == FDec("3.1415926")
K_3p2 == FDec("3.2")
K_3p344 == FDec("3.344")
K_301 == FDec("301")
K_31 == FDec("31")
K_310 == FDec("310")
K_32p8 == FDec("32.8")
K_36p66 == FDec("36.66")
K_37p7 == FDec("37.7")
K_4p5 == FDec("4.5")
K_42p85 == FDec("42.85")
K_44p21 == FDec("44.21")
K_44p34 == FDec("44.34")
K_44p8 == FDec("44.8")
K_45p5 == FDec("45.5")
K_48p25 == FDec("48.25")
K_5p35 == FDec("5.35")
K_525 == FDec("525")
K_57 == FDec("57")
K_6p34 == FDec("6.34")
K_6378p14 == FDec("6378.14")
K_65 == FDec("65")
K_7p4 == FDec("7.4")
K_71 == FDec("71")
K_8p3 == FDec("8.3")
K_87p2 == FDec("87.2")
K_9 == FDec("9")
(* ---- model constants ------------------------------------------------------ *)
PiM   == K_3p1415926          \* the model's value of pi in the stepping and distance geometry
Re    == K_6378p14
Z0    == K_525                \* reference orbit, km
ZTop  == K_65
DL    == K_0p1                \* path step, km
Alpha == FDiv(FOne, K_137p04)
ECrit == FDiv(K_0p710, FAdd(K_7p4, K_0p96))
NW    == 28                      \* wavelength bins
Lam(k)    == FInt(200 + 25 * k)                         \* bin edges, k = 0..28 (nm)
LamBar(k) == FAdd(Lam(k - 1), K_12p5)                \* bin centres, k = 1..28
OzZeta == <<K_5p35, K_10p2, K_14p75, K_19p15, K_23p55, K_28p1, K_32p8, K_37p7, K_42p85, K_48p25, K_100>>
OzDep  == <<K_15, K_9, K_10, K_31, K_71, K_87p2, K_57, K_29p4, K_10p9, K_3p2, K_1p3>>
OzDsum == <<K_310, K_301, K_291, K_260, K_189, K_101p8, K_44p8, K_15p4, K_4p5, K_1p3, K_0p1>>
AOD == <<K_0p250, K_0p136, K_0p086, K_0p065, K_0p055, K_0p049, K_0p045, K_0p042, K_0p038, K_0p035,
         K_0p032, K_0p029, K_0p026, K_0p023, K_0p020, K_0p017, K_0p015, K_0p012, K_0p010, K_0p007,
         K_0p006, K_0p004, K_0p003, K_0p003, K_0p002, K_0p002, K_0p001, K_0p001, K_0p001, K_0p001>>
DOD(i) == IF i < 30 THEN FSub(AOD[i], AOD[i + 1]) ELSE FZero          \* 1-based
AP == <<K_m1p2971, K_0p22046em01, K_m0p19505em04, K_0p94394em08, K_m0p21938em11, K_0p19390em15>>
BetaInv(x) == FAdd(AP[1], FMul(x, FAdd(AP[2], FMul(x, FAdd(AP[3], FMul(x, FAdd(AP[4], FMul(x, FAdd(AP[5], FMul(x, AP[6]))))))))))
(* derived wavelength tables, materialised once *)
ABeta == FSeq([k \in 1..NW |-> FDiv(FDiv(FOne, BetaInv(LamBar(k))), K_0p158)])
Kappa == FSeq([k \in 1..NW |-> FMul(K_m1em3, FPow(FInt(10), FSub(K_110p5, FMul(K_44p21, FLog10(LamBar(k))))))])
YCoef == FSeq([k \in 1..NW |-> FMul(FMul(FMul(FMul(K_2e12, DL), PiM), Alpha), FSub(FDiv(FOne, Lam(k - 1)), FDiv(FOne, Lam(k))))])
Rayl  == FSeq([k \in 1..NW |-> FPow(FDiv(FInt(400), LamBar(k)), FInt(4))])

(* ---- atmosphere ------------------------------------------------------------- *)
(* vertical depth X (g/cm2) above altitude z and density rho (g/cm3) *)
Depth(z) == IF FLt(z, FInt(11)) THEN FPow(FDiv(FSub(z, K_44p34), K_m11p861), FDiv(FOne, K_0p19))
            ELSE IF FLt(z, FInt(25)) THEN FExp(FDiv(FSub(z, K_45p5), K_m6p34))
            ELSE FExp(FSub(K_13p841, FSqrt(FAdd(K_28p920, FMul(K_3p344, z)))))
Density(z) == IF FLt(z, FInt(11))
              THEN FMul(FDiv(FMul(K_m1p0em5, FDiv(FOne, K_0p19)), K_m11p861),
                        FPow(FDiv(FSub(z, K_44p34), K_m11p861), FSub(FDiv(FOne, K_0p19), FOne)))
              ELSE IF FLt(z, FInt(25)) THEN FMul(FDiv(K_1em5, K_6p34), Depth(z))
              ELSE FMul(FDiv(FMul(K_0p5em5, K_3p344), FSqrt(FAdd(K_28p920, FMul(K_3p344, z)))), Depth(z))
(* total ozone column above z (atm-cm x 1000) *)
Ozone(z) == IF FLt(z, K_5p35) THEN FAdd(FInt(310), FMul(FDiv(FSub(K_5p35, z), K_5p35), FInt(15)))
            ELSE IF FGe(z, FInt(100)) THEN K_0p1
            ELSE LET m == CHOOSE i \in 1..11 : FGe(OzZeta[i], z) /\ (i = 1 \/ FLt(OzZeta[i - 1], z)) IN
                 IF m = 1 THEN OzDsum[1]
                 ELSE FAdd(OzDsum[m], FMul(FDiv(FSub(OzZeta[m], z), FSub(OzZeta[m], OzZeta[m - 1])), OzDep[m]))
Refractive(X) == FAdd(FOne, FMul(FMul(K_0p000296, FDiv(X, K_1032p9414)), FDiv(K_273p2, FAdd(FInt(204), FMul(K_0p091, X)))))

(* ---- shower ------------------------------------------------------------------ *)
TrackLen(E0, e, s) == FDiv(FPow(FDiv(FSub(FMul(K_0p89, E0), K_1p2), FAdd(E0, e)), s), FSq(FAdd(FOne, FMul(FMul(K_1em4, s), e))))
HillasE0(s) == IF FLt(s, K_0p4) THEN FInt(26) ELSE FSub(FInt(44), FMul(FInt(17), FSq(FSub(s, K_1p46))))

(* ---- state ------------------------------------------------------------------- *)
(* The track is walked twice with the same stepping rule: pass 1 accumulates the total grammage and ozone of the track    *)
(* (the light of a step is attenuated by what lies ABOVE it), pass 2 walks it again and adds each selected step's yield.   *)
(* Only running sums are kept in the state, so a state has constant size whatever the number of steps (up to ~9000 at 1    *)
(* degree).                                                                                                                  *)
(* Note on style: TLC re-evaluates a LET definition at every reference when it evaluates an action, but evaluates an         *)
(* operator ARGUMENT once.  Intermediate quantities that are used more than once are therefore passed as arguments of        *)
(* auxiliary operators (W2a, W2b, ...) instead of being named in a LET.                                                      *)
VARIABLES ev,      \* [beta, alt, E100, top, zdet]
          geo,     \* quantities fixed by the event: [betaK, thetaView, sinView, b (Greisen), I (energy decades)]
          phase,   \* "idle" | "pass1" | "pass2" | "done"
          z,       \* current altitude of the stepping
          cumT,    \* grammage accumulated below the current step (running sum of step grammages)
          cumO,    \* ozone accumulated below
          ozPrev,  \* ozone column at the previous altitude
          tot,     \* <<total grammage, total ozone>> of the track (known after pass 1)
          acc,     \* accumulators of pass 2
          out      \* <<density, angle (deg)>>
cvars == <<ev, geo, phase, z, cumT, cumO, ozPrev, tot, acc, out>>

GeoB(betaK, eShow, thv) == [betaK |-> betaK, thetaView |-> thv, sinView |-> FSin(thv), b |-> FLn(FDiv(eShow, ECrit)),
                            I |-> FToInt(FLog10(eShow)) + 1]          \* Hillas energy decades 10^1 .. 10^(I+1) MeV
GeoA(betaK, eShow) == GeoB(betaK, eShow, FAsin(FMul(FDiv(Re, FAdd(Re, Z0)), FCos(betaK))))
GeoOf(e) == GeoA(FMax(e.beta, FRadians(FOne)), FMul(e.E100, K_1e8))       \* emergence angles below 1 deg are treated as 1 deg

Acc0 == [phi |-> FZero, Q |-> FZero, Qth |-> FZero, Qth2 |-> FZero, m |-> 0, nmax |-> FNeg(FOne), dmax |-> FZero,
         lastZ |-> FNegInf, penZ |-> FNegInf, nsel |-> 0]
Load(e) == /\ ev' = e /\ geo' = GeoOf(e) /\ phase' = "pass1" /\ z' = e.alt /\ cumT' = FZero /\ cumO' = FZero
           /\ ozPrev' = Ozone(e.alt) /\ tot' = <<FZero, FZero>> /\ out' = <<FZero, FZero>> /\ acc' = Acc0

(* one 0.1 km step along the track starting at altitude zz: thickness, mid-step altitude, grammage, ozone *)
PropAngle(zz) == FAcos(FDiv(FMul(geo.sinView, FAdd(Re, Z0)), FAdd(Re, zz)))
Thickness(r, thp0) == FSub(FSqrt(FSub(FAdd(FSq(r), FSq(DL)), FMul(FMul(FMul(FTwo, r), DL), FCos(FAdd(FDiv(PiM, FTwo), thp0))))), r)
StepC(dz, zm, oz, ozBefore) == [dz |-> dz, zm |-> zm, X |-> Depth(zm), g |-> FMul(FMul(Density(zm), DL), K_1e5), oz |-> oz,
                                o |-> FMul(FDiv(FSub(ozBefore, oz), dz), DL), thp |-> PropAngle(zm)]
StepB(dz, zm, ozBefore) == StepC(dz, zm, Ozone(zm), ozBefore)
StepA(zz, dz, ozBefore) == StepB(dz, FAdd(zz, FDiv(dz, FTwo)), ozBefore)
StepOf(zz, ozBefore) == StepA(zz, Thickness(FAdd(zz, Re), PropAngle(zz)), ozBefore)

W1(st) == z' = FAdd(z, st.dz) /\ cumT' = FAdd(cumT, st.g) /\ cumO' = FAdd(cumO, st.o) /\ ozPrev' = st.oz
Walk1 == /\ phase = "pass1" /\ FLe(z, ZTop)
         /\ W1(StepOf(z, ozPrev))
         /\ UNCHANGED <<ev, geo, phase, tot, acc, out>>
EndWalk1 == /\ phase = "pass1" /\ FGt(z, ZTop)
            /\ phase' = "pass2" /\ tot' = <<cumT, cumO>>
            /\ z' = ev.alt /\ cumT' = FZero /\ cumO' = FZero /\ ozPrev' = Ozone(ev.alt)
            /\ UNCHANGED <<ev, geo, acc, out>>

(* Greisen parametrisation for slant depth T from the decay point through the step *)
AgeT(t) == FDiv(FMul(FInt(3), t), FAdd(t, FMul(FTwo, geo.b)))
Age(T) == AgeT(FDiv(T, K_36p66))
SizeS(t, s) == FMax(FZero, FMul(FDiv(K_0p31, FSqrt(geo.b)), FExp(FMul(t, FSub(FOne, FMul(K_1p5, FLn(s)))))))
Size(T, s) == SizeS(FDiv(T, K_36p66), s)
E2Hill(s) == FAdd(FInt(1150), FMul(FInt(454), FLn(s)))
SelectedA(n, s, N) == /\ ~FEq(n, FOne) /\ ~FEq(n, FZero) /\ ~(FLt(N, FOne) /\ FGt(s, FOne)) /\ FGt(E2Hill(s), FZero)

(* Hillas angular integral for one step: sum over radial bins j (1 km) and energy decades e.                                 *)
(* u = cap x (E/21)^2 / w ; x = sqrt(u) - 0.59 ; term = exp(-x / (0.478 if x < 0 else 0.380)) du (tau_e - tau_{e+1}) 0.777  *)
CapAngle(x, Dist) == FMul(FTwo, FSub(FOne, FCos(FAtan2(x, Dist))))               \* 2 (1 - cos) of the angle subtended by radius x at the detector
RadSeq(jl, Dist) == FSeq([j \in 1..jl |-> <<FSqrt(CapAngle(FSub(FInt(j), K_0p5), Dist)), FMax(FSub(CapAngle(FInt(j), Dist), CapAngle(FInt(j - 1), Dist)), FZero)>>])
H(e) == FPow(FInt(10), FInt(e + 1))                                          \* decade edges 10^(e+1) MeV, e = 0..I
TauSeq(I, eC, Tf, E0, s) == FSeq([e \in 1..(I + 1) |-> IF FGe(eC, H(e - 1)) THEN Tf ELSE TrackLen(E0, H(e - 1), s)])
WHill(eb, v) == FDiv(FMul(FMul(K_0p0054, eb), FAdd(FOne, v)), FAdd(FAdd(FOne, FMul(FInt(13), v)), FMul(K_8p3, FSq(v))))
DecC(c1, dtau) == <<FSqrt(c1), FMul(FMul(c1, dtau), K_0p777)>>
DecB(eb, e2, dtau) == DecC(FDiv(FSq(FDiv(eb, FInt(21))), WHill(eb, FDiv(eb, e2))), dtau)
DecA(e, eC, e2, Tau) == DecB(IF FGe(eC, H(e - 1)) THEN FDiv(FAdd(eC, H(e)), FTwo) ELSE FMul(FInt(5), H(e - 1)), e2, FMax(FSub(Tau[e], Tau[e + 1]), FZero))
DecSeq(I, eC, e2, Tau) == FSeq([e \in 1..I |-> DecA(e, eC, e2, Tau)])
HillExp(x) == FExp(FDiv(FNeg(x), IF FLt(x, FZero) THEN K_0p478 ELSE K_0p380))
AIRow(jl, Rad, a, w) == FMul(w, FSum([j \in 1..jl |-> FMul(HillExp(FSub(FMul(Rad[j][1], a), K_0p59)), Rad[j][2])]))
AIB(jl, I, Rad, Dec) == FSum([e \in 1..I |-> AIRow(jl, Rad, Dec[e][1], Dec[e][2])])
AIA(jl, I, Dist, eC, Tf, E0, s, e2) == IF jl < 1 \/ I < 1 THEN FZero ELSE AIB(jl, I, RadSeq(jl, Dist), DecSeq(I, eC, e2, TauSeq(I, eC, Tf, E0, s)))
AngularIntegral(Dist, thC, eC, Tf, E0, s, e2) == AIA(FToInt(FMul(Dist, FTan(thC))), geo.I, Dist, eC, Tf, E0, s, e2)

(* wavelength-integrated yield of a step with transmission through what lies above it *)
AeroArg(zm, iz, thp) == IF FLt(zm, FInt(30))
                        THEN FDiv(FNeg(FSub(AOD[iz + 1], FMul(FSub(zm, FInt(iz)), DOD(iz + 1)))), FCos(FSub(FDiv(PiM, FTwo), thp)))
                        ELSE FZero
YSum(rayArg, ozAbove, aeroArg) ==
    FSum([k \in 1..NW |-> FMul(FMul(FMul(YCoef[k], FExp(FMul(rayArg, Rayl[k]))), FExp(FMul(ozAbove, Kappa[k]))), FExp(FMul(aeroArg, ABeta[k])))])
YBar(st, thC, N) == IF FLt(st.zm, ev.top) THEN FZero          \* light emitted below the cloud top is removed
                    ELSE FMul(FMul(FSq(FSin(thC)), N),
                              YSum(FDiv(FNeg(FSub(tot[1], cumT)), FInt(2974)), FSub(tot[2], cumO), AeroArg(st.zm, FToInt(st.zm), st.thp)))

(* pass 2: the contribution of the step starting at z (if selected) *)
W2e(st, N, thC, Tf, Dist, ybar, ang, q) ==
    acc' = [phi |-> FAdd(acc.phi, FMul(ang, ybar)), Q |-> FAdd(acc.Q, q), Qth |-> FAdd(acc.Qth, FMul(q, thC)),
            Qth2 |-> FAdd(acc.Qth2, FMul(q, FSq(thC))), m |-> acc.m + (IF FEq(FMul(q, thC), FZero) THEN 0 ELSE 1),
            nmax |-> IF FGt(N, acc.nmax) THEN N ELSE acc.nmax, dmax |-> IF FGt(N, acc.nmax) THEN Dist ELSE acc.dmax,
            lastZ |-> st.zm, penZ |-> acc.lastZ, nsel |-> acc.nsel + 1]
W2d(st, s, N, e2, E0, eC, thC, Tf, Dist, ybar) ==
    W2e(st, N, thC, Tf, Dist, ybar, IF FEq(ybar, FZero) THEN FZero ELSE AngularIntegral(Dist, thC, eC, Tf, E0, s, e2), FMul(ybar, Tf))
W2c(st, s, N, e2, E0, eC, thC) ==
    W2d(st, s, N, e2, E0, eC, thC, TrackLen(E0, eC, s),
        FMul(FDiv(FSin(FSub(FSub(FDiv(PiM, FTwo), geo.thetaView), st.thp)), FSin(geo.thetaView)), FAdd(Re, st.zm)),
        YBar(st, thC, N))
W2b(st, T, n, s, N) ==
    IF ~SelectedA(n, s, N) THEN acc' = acc
    ELSE W2c(st, s, N, E2Hill(s), HillasE0(s), FDiv(K_0p511, FSqrt(FSub(FOne, FDiv(FOne, FSq(n))))), FAcos(FDiv(FOne, n)))
W2a(st, T, s) == /\ z' = FAdd(z, st.dz) /\ cumT' = T /\ cumO' = FAdd(cumO, st.o) /\ ozPrev' = st.oz
                 /\ W2b(st, T, Refractive(st.X), s, Size(T, s))
W2(st, T) == W2a(st, T, Age(T))
W2s(st) == W2(st, FAdd(cumT, st.g))                      \* T: slant depth from the decay point through this step
Walk2 == /\ phase = "pass2" /\ FLe(z, ZTop)
         /\ W2s(StepOf(z, ozPrev))
         /\ UNCHANGED <<ev, geo, phase, tot, out>>

(* distance shower -> detector at altitude Z with the true pi (inverse-square scaling) *)
DistB(tv, tp) == FMul(FDiv(FSin(FSub(FSub(FHalfPi, tv), tp)), FSin(tv)), FAdd(ev.alt, Re))
DistTo(Z) == DistB(FAsin(FMul(FDiv(Re, FAdd(Re, Z)), FCos(geo.betaK))), FAcos(FMul(FDiv(Re, FAdd(Re, ev.alt)), FCos(geo.betaK))))

RedC(thbar, sig) == <<FMul(FDiv(FMul(K_0p5, acc.phi), FMul(PiM, FSq(FMul(FMul(FTan(thbar), K_1e3), acc.dmax)))),
                           FSq(FDiv(DistTo(Z0), DistTo(ev.zdet)))),
                      FDegrees(FAdd(thbar, sig))>>
RedB(thbar, var) == RedC(thbar, FSqrt(IF acc.m > 1 THEN FDiv(FMul(var, FInt(acc.m)), FInt(acc.m - 1)) ELSE var))
RedA(thbar) == RedB(thbar, FMax(FZero, FSub(FDiv(acc.Qth2, acc.Q), FSq(thbar))))      \* yield-weighted variance of the Cherenkov angle
Reduce ==
    /\ phase = "pass2" /\ FGt(z, ZTop)
    /\ phase' = "done"
    /\ out' = IF acc.nsel < 2 \/ FLt(acc.penZ, ev.top) \/ FEq(acc.Q, FZero) THEN <<FZero, FZero>>
              ELSE RedA(FDiv(acc.Qth, acc.Q))
    /\ UNCHANGED <<ev, geo, z, cumT, cumO, ozPrev, tot, acc>>

CNext == Walk1 \/ EndWalk1 \/ Walk2 \/ Reduce
=============================================================================
