----------------------------- MODULE ResultsFile -----------------------------
(***************************************************************************)
(* C16.  A results file is self-describing and loss-free.                   *)
(*  - the file is a register (GridFile.tla): reading returns the table      *)
(*    written: same columns in the same order, bit-identical data, every    *)
(*    header value;                                                         *)
(*  - the header contains the complete flattened configuration (all values  *)
(*    a FITS card can represent);                                           *)
(*  - reconstruction Recon = ConfigFromHeader: a field g is RECONSTRUCTED    *)
(*    iff its reconstructed value depends on the file (two files give       *)
(*    different Recon(.).g); every reconstructed field must agree with the  *)
(*    configuration that produced the file.  Stated as an invariant of the  *)
(*    product state `runs' = set of [cfg, recon] pairs, without reference   *)
(*    to the implementation's mapping table: a field simply left at its     *)
(*    default is not reconstructed and not judged, a field filled from the  *)
(*    wrong card is reconstructed and wrong.                                *)
(* cfg / recon are functions field-name -> value, value = <<kind, x>> with   *)
(* kind "a" (angle-like double), "n" (other double) or "s" (token).          *)
(***************************************************************************)
EXTENDS Float64, Naturals, Sequences, FiniteSets

ValSame(a, b) == /\ a[1] = b[1]
                 /\ CASE a[1] = "a" -> FClose(a[2], b[2], FDec("1e-12"), FDec("1e-15"))
                      [] a[1] = "n" -> FClose(a[2], b[2], FDec("1e-13"), FZero)
                      [] OTHER -> a[2] = b[2]

VARIABLE runs
Init == runs = {}
Record(r) == runs' = runs \cup {r}

FieldsOf(r) == DOMAIN r.recon \cap DOMAIN r.cfg
Reconstructed(g) == \E a, b \in runs : g \in FieldsOf(a) /\ g \in FieldsOf(b) /\ ~ValSame(a.recon[g], b.recon[g])
ReconAgrees == \A r \in runs : \A g \in FieldsOf(r) : Reconstructed(g) => ValSame(r.recon[g], r.cfg[g])
(* the fields that break the invariant, for the verdict *)
WrongFields == {g \in UNION {FieldsOf(r) : r \in runs} : Reconstructed(g) /\ \E r \in runs : g \in FieldsOf(r) /\ ~ValSame(r.recon[g], r.cfg[g])}
=============================================================================
