-------------------------- MODULE TraceResultsFile --------------------------
(* Trace validation for C16 against ResultsFile.tla.                                                                 *)
(*  file  {cols, colsBack, dig, digBack, meta, metaBack}   table written with Table.write(format="fits") and read back *)
(*        meta / metaBack: sequences of <<key, <<kind, x>>>>                                                          *)
(*  hdr   {flat, header, flatkeys}   flattened configuration (model dump) vs the HIERARCH Config cards of the file               *)
(*  recon {ok, cfg, recon} config_from_fits of a results file vs the configuration that produced it                    *)
(*  end   {}               last event: the reconstructed-field invariant over all recon events                          *)
EXTENDS TraceKit, ResultsFile

Lookup(seq, k) == LET I == {i \in 1..Len(seq) : seq[i][1] = k} IN IF I = {} THEN <<"missing", 0>> ELSE seq[CHOOSE i \in I : TRUE][2]
Keys(seq) == {seq[i][1] : i \in 1..Len(seq)}
AsFcn(seq) == [k \in Keys(seq) |-> Lookup(seq, k)]

Check(e) ==
    CASE e.kind = "file" ->
        Fails(<< <<"C16 the file read back has the same columns in the same order", e.cols = e.colsBack>>,
                 <<"C16 every column is preserved bit for bit", e.dig = e.digBack>>,
                 <<"C16 every header value is preserved", \A k \in Keys(e.meta) : ValSame(Lookup(e.meta, k), Lookup(e.metaBack, k))>> >>)
      [] e.kind = "hdr" ->
        Fails(<< <<"C16 the header contains the complete flattened configuration (all values FITS can represent)",
                   \A k \in Keys(e.flat) : ValSame(Lookup(e.flat, k), Lookup(e.header, k))>>,
                 <<"C16 every configuration card of the header is a field of the configuration that produced the run (self-describing: no card of another run)",
                   \A k \in Keys(e.header) : k \in {e.flatkeys[i] : i \in 1..Len(e.flatkeys)}>> >>)
      [] e.kind = "recon" -> Fails(<< <<"C16 a stored results file can be reloaded into a configuration", e.ok>> >>)
      [] e.kind = "plotload" -> Fails(<< <<"C16 stored results can be reloaded for plotting (show-plot --plotall on the file succeeds)", e.ok>> >>)
      [] e.kind = "end" ->
        IF PrintT(<<"WRONGFIELDS", WrongFields>>)
        THEN Fails(<< <<"C16 the reconstructed configuration agrees with the original on every field it reconstructs", ReconAgrees>> >>)
        ELSE <<>>
      [] OTHER -> <<"unknown event kind">>

TInit == TKInit /\ Init
TNext == /\ TKAdvance
         /\ IF Ev.kind = "recon" /\ Ev.ok THEN Record([cfg |-> AsFcn(Ev.cfg), recon |-> AsFcn(Ev.recon)]) ELSE UNCHANGED runs
         /\ TKRecord(Check(Ev))
TSpec == TInit /\ [][TNext]_<<tkvars, runs>>
=============================================================================
