----------------------------- MODULE GridInterp -----------------------------
(***************************************************************************)
(* Regular-grid interpolation over Float64: bracketing on a strictly        *)
(* increasing axis, linear and bilinear blends, piecewise-linear rows and   *)
(* the slice of a grid at a coordinate (C04, C05, C18).                     *)
(***************************************************************************)
EXTENDS Float64, Naturals, Sequences

StrictlyIncreasing(ax) == \A i \in 1..(Len(ax) - 1) : FLt(ax[i], ax[i + 1])
NonDecreasing(row)     == \A i \in 1..(Len(row) - 1) : FLe(row[i], row[i + 1])
InAxis(ax, x)          == FLe(ax[1], x) /\ FLe(x, ax[Len(ax)])

(* the cell [ax[i], ax[i+1]] containing x (x inside the axis range) *)
Cell(ax, x) == CHOOSE i \in 1..(Len(ax) - 1) : FLe(ax[i], x) /\ FLe(x, ax[i + 1])
Frac(ax, i, x) == FDiv(FSub(x, ax[i]), FSub(ax[i + 1], ax[i]))
Lerp(a, b, t) == FAdd(FMul(FSub(FOne, t), a), FMul(t, b))

(* bilinear blend of a function of two indices, V(i, j), at (x, y) *)
Bilerp(V(_, _), ax, ay, x, y) ==
    LET i == Cell(ax, x)  j == Cell(ay, y)
        s == Frac(ax, i, x)  t == Frac(ay, j, y)
    IN Lerp(Lerp(V(i, j), V(i, j + 1), t), Lerp(V(i + 1, j), V(i + 1, j + 1), t), s)

CornerMin(V(_, _), ax, ay, x, y) ==
    LET i == Cell(ax, x)  j == Cell(ay, y)
    IN FMin(FMin(V(i, j), V(i, j + 1)), FMin(V(i + 1, j), V(i + 1, j + 1)))
CornerMax(V(_, _), ax, ay, x, y) ==
    LET i == Cell(ax, x)  j == Cell(ay, y)
    IN FMax(FMax(V(i, j), V(i, j + 1)), FMax(V(i + 1, j), V(i + 1, j + 1)))

(* ordinary piecewise-linear interpolation y(x) through the nodes (xs[k], ys[k]); xs non-decreasing.     *)
(* On a vertical segment (xs[k] = xs[k+1]) any value between ys[k] and ys[k+1] is an image of x, which is  *)
(* why inverse sampling is specified through the FORWARD map below.                                        *)
PWLinear(xs, ys, x) ==
    LET k == CHOOSE k \in 1..(Len(xs) - 1) : FLe(xs[k], x) /\ FLe(x, xs[k + 1]) /\ FLt(xs[k], xs[k + 1])
    IN FAdd(ys[k], FMul(FSub(x, xs[k]), FDiv(FSub(ys[k + 1], ys[k]), FSub(xs[k + 1], xs[k]))))

(* inverse sampling of a non-decreasing row: the image of u under ordinary piecewise-linear interpolation   *)
(* of the nodes (row[k], zs[k]) -- defined when u is strictly inside the row range                          *)
Inverse(row, zs, u) == PWLinear(row, zs, u)

(* forward map of a tabulated CDF row R(k) over the axis zs, evaluated at z *)
Forward(R(_), zs, z) ==
    LET k == Cell(zs, z) IN Lerp(R(k), R(k + 1), Frac(zs, k, z))
=============================================================================
