------------------------------ MODULE TraceRows ------------------------------
(* C14, "every stage's columns are mutually consistent across stages": every row of a final results table is fed through   *)
(* the per-stage operators of TauTables / Kinematics / Optical.  One event = one row + the run's parameters.                 *)
(*   row {beta, loge, tauBeta, tauLorentz, tauEnergy, showerEnergy, pexit, altDec, lenDec, hasOpt, numPEs, cosEff, f, R}      *)
EXTENDS TraceKit, TauTables, Kinematics, Optical

T12 == FDec("1e-12")
Check(e) ==
    Fails(<< <<"C14 row: tauLorentz = tauEnergy / m_tau", FClose(e.tauLorentz, Gamma(e.tauEnergy), T12, FZero)>>,
             <<"C14 row: tauBeta = sqrt(1 - 1/gamma^2)", FClose(e.tauBeta, BetaTau(e.tauLorentz), T12, FZero)>>,
             <<"C14 row: showerEnergy = etau_frac x tauEnergy / 1e8", FClose(e.showerEnergy, ShowerE(e.tauEnergy, e.f), T12, FZero)>>,
             <<"C14 row: tauExitProb = exit probability of the row's (log_e_nu, beta_rad) from the propagation table",
               IF FGt(e.beta, BetaMaxP) THEN FClose(e.pexit, Pexit(e.loge, e.beta), FDec("1e-5"), FZero)
               ELSE FClose(e.pexit, Pexit(e.loge, e.beta), T12, FZero)>>,
             <<"C14 row: tau energy is a tabulated fraction of the neutrino energy",
               LET zz == FDiv(e.tauEnergy, FPow(FInt(10), e.loge)) IN
               FLe(zz, FMul(ZMax, FDec("1.0000000000001"))) /\ (FGe(zz, FMul(ZMin, FDec("0.9999999999999"))) \/ AboveTable(e.beta))>>,
             <<"C14 row: altDec = altitude at distance lenDec along the emergence direction",
               FClose(e.altDec, Altitude(e.lenDec, e.beta, e.R), FDec("1e-9"), FDec("1e-9"))>>,
             <<"C14 row: lenDec >= 0", FGe(e.lenDec, FZero)>>,
             <<"C14 row: decays outside [0, 20] km have exactly zero photo-electrons and the default 1.5 deg cone",
               ~e.hasOpt \/ InRange(e.altDec) \/ (e.numPEs = FZero /\ FUlps(e.cosEff, FCos(FRadians(DefaultAngleDeg))) <= 1)>>,
             <<"C14 row: photo-electrons finite and non-negative, cone cosine in [-1, 1]",
               ~e.hasOpt \/ (FIsFinite(e.numPEs) /\ FGe(e.numPEs, FZero) /\ FLe(FAbs(e.cosEff), FOne))>> >>)

TInit == TKInit
TNext == TKStep(Check)
TSpec == TInit /\ [][TNext]_tkvars
=============================================================================
