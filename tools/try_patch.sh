#!/bin/sh
# usage: tools/try_patch.sh <patch.diff> <property> [tier]   -- run a check against a scratch copy of /repo with the patch applied
set -e
PATCH=$(realpath "$1"); PROP=$2; TIER=${3:-quick}
D=$(mktemp -d /tmp/nsv-mut-XXXXXX)
rsync -a --exclude .git /repo/ "$D/"
( cd "$D" && patch -p1 -s < "$PATCH" )
set +e
VERIF_REPO="$D" /verif/check "$PROP" --tier "$TIER" > "$D.out" 2>&1
RC=$?
grep -E "^(VIOLATION|KNOWN-FINDING|EXTENDED|OK|MACHINERY|  failing clause)" "$D.out" | cut -c1-260 | head -8
echo "rc=$RC"
rm -rf "$D" "$D.out"
exit 0
