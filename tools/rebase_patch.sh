#!/bin/sh
# usage: tools/rebase_patch.sh <patch> <base-commit>   -- re-create a patch made against <base-commit> on top of /repo HEAD
# (3-way: the patch is committed on <base-commit> in a scratch clone and /repo's later commits are merged in).  Prints the new patch
# on stdout; exit 1 on conflict.
set -e
P=$(realpath "$1"); BASE=$2
D=$(mktemp -d /tmp/nsv-rebase-XXXX)
trap 'rm -rf "$D"' EXIT
git clone -q /repo "$D/r"
cd "$D/r"
git checkout -q "$BASE"
git apply "$P"
git -c user.name=x -c user.email=x@x commit -qam patch
git -c user.name=x -c user.email=x@x merge -q --no-edit origin/main >/dev/null 2>&1 || { echo "CONFLICT" >&2; git diff --name-only --diff-filter=U >&2; exit 1; }
git diff origin/main HEAD
