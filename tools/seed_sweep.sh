#!/bin/sh
# usage: tools/seed_sweep.sh "<seeds>" [tier]   -- run every claimed check for each seed; print one line per run
cd "$(dirname "$0")/.." || exit 2
sh setup.sh >/dev/null
TIER=${2:-quick}
for s in $1; do
  for p in $(python3 -c "import json;print(' '.join(c['property_id'] for c in json.load(open('MANIFEST.json'))['checks']))"); do
    out=$(VERIF_SEED=$s ./check $p --tier $TIER 2>&1)
    rc=$?
    echo "seed=$s $p rc=$rc $(echo "$out" | grep -E '^(OK|VIOLATION|MACHINERY)' | head -1 | cut -c1-160)"
    if [ $rc -ne 0 ]; then echo "$out" | grep -E "failing clause|Error" | head -3 | cut -c1-400; fi
  done
done
