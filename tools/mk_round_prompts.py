#!/usr/bin/env python3
"""usage: tools/mk_round_prompts.py <round> [PIDs...] -- writes /tmp/prompt<round>-<PID>.txt = base prompt + tools/round<round>_hint.txt"""
import json, os, sys
here = os.path.dirname(os.path.abspath(__file__))
rnd = sys.argv[1]
base = json.load(open(os.path.join(here, "agent_prompts.json")))
hint = open(os.path.join(here, f"round{rnd}_hint.txt")).read().strip()
for pid in (sys.argv[2:] or sorted(base)):
    with open(f"/tmp/prompt{rnd}-{pid}.txt", "w") as f:
        f.write(base[pid].rstrip() + "\n\n" + hint + "\n")
    print(f"/tmp/prompt{rnd}-{pid}.txt")
