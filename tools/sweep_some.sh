#!/bin/sh
# usage: tools/sweep_some.sh "<PIDs>" "<seeds>" [tier]   -- like seed_sweep.sh for a subset of the checks
cd "$(dirname "$0")/.." || exit 2
sh setup.sh >/dev/null
TIER=${3:-quick}
for s in $2; do
  for p in $1; do
    out=$(VERIF_SEED=$s ./check $p --tier $TIER 2>&1)
    rc=$?
    echo "seed=$s $p rc=$rc $(echo "$out" | grep -E '^(OK|VIOLATION|MACHINERY)' | head -1 | cut -c1-160)"
    if [ $rc -ne 0 ]; then echo "$out" | grep -E "failing clause|Error" | head -3 | cut -c1-400; fi
  done
done
