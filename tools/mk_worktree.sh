#!/bin/sh
# usage: tools/mk_worktree.sh <dir>   -- scratch git worktree of /repo HEAD with the (git-ignored) build products copied in
set -e
D=$1
git -C /repo worktree add --detach "$D" HEAD >/dev/null 2>&1
cp /repo/src/nuspacesim/_version.py "$D/src/nuspacesim/_version.py"
cp /repo/src/nuspacesim/simulation/eas_optical/zsteps.cpython-312-x86_64-linux-gnu.so "$D/src/nuspacesim/simulation/eas_optical/"
mkdir -p "$D/seed"
echo "$D"
