#!/usr/bin/env python3
"""Confirm and adopt sub-agent seeded changes.
usage: tools/adopt_seed.py <PID> [--checks C04,C11] [--tier quick]
For every /tmp/wt-<PID>/seed/patchK.diff: in a scratch copy of /repo (outside /repo and /verif) confirm
  (1) demo exits 0 on the unchanged copy, (2) patch applies, (3) demo exits 1 on the changed copy, (4) the 45 tests pass with the change;
then run the named /verif checks against the changed copy (VERIF_REPO) and record whether they report a violation.
Kept changes go to /verif/seeded/<PID>-K/{patch.diff, demo.py, meta.json}."""
import json
import os
import shutil
import subprocess
import sys
import tempfile

VERIF = os.path.dirname(os.path.dirname(os.path.abspath(__file__)))


def sh(cmd, **kw):
    return subprocess.run(cmd, shell=True, stdout=subprocess.PIPE, stderr=subprocess.STDOUT, text=True, **kw)


def main():
    pid = sys.argv[1]
    checks = [pid]
    tier = "quick"
    suffix = ""
    for i, a in enumerate(sys.argv):
        if a == "--suffix":
            suffix = sys.argv[i + 1]
        if a == "--checks":
            checks = sys.argv[i + 1].split(",")
        if a == "--tier":
            tier = sys.argv[i + 1]
    seed = f"/tmp/wt-{pid}/seed"
    metas = json.load(open(os.path.join(seed, "meta.json")))
    if isinstance(metas, dict):
        metas = [metas]
    for k, m in enumerate(metas, 1):
        patch = os.path.join(seed, m.get("patch", f"patch{k}.diff"))
        demo = os.path.join(seed, m.get("demo", f"demo{k}.py"))
        d = tempfile.mkdtemp(prefix="nsv-seed-", dir="/tmp")
        try:
            sh(f"rsync -a --exclude .git /repo/ {d}/")
            env = dict(os.environ, NSS_SRC=f"{d}/src", PYTHONPATH=f"{d}/src")
            r0 = sh(f"/venv/bin/python {demo}", env=env, cwd=d, timeout=600)
            ap = sh(f"patch -p1 -s < {patch}", cwd=d)
            r1 = sh(f"/venv/bin/python {demo}", env=env, cwd=d, timeout=600)
            t = sh("/venv/bin/python -m pytest -q -p no:cacheprovider -x 2>&1 | tail -1", env=env, cwd=d, timeout=900)
            confirmed = r0.returncode == 0 and ap.returncode == 0 and r1.returncode == 1 and "45 passed" in t.stdout
            print(f"[{pid}-{suffix}{k}] clean demo rc={r0.returncode} apply rc={ap.returncode} changed demo rc={r1.returncode} tests: {t.stdout.strip()} -> "
                  f"{'CONFIRMED' if confirmed else 'NOT CONFIRMED'}")
            if not confirmed:
                print(r0.stdout[-300:], ap.stdout[-300:], r1.stdout[-300:])
                continue
            results = {}
            for c in checks:
                r = sh(f"{VERIF}/check {c} --tier {tier}", env=dict(os.environ, VERIF_REPO=d), cwd=VERIF, timeout=3600)
                lines = [l for l in r.stdout.splitlines() if l.startswith(("VIOLATION", "OK ", "MACHINERY", "  failing clause", "KNOWN"))]
                results[c] = {"rc": r.returncode, "lines": [l[:300] for l in lines[:4]]}
                print(f"   check {c}: rc={r.returncode} " + (lines[0][:200] if lines else r.stdout[-200:]))
            out = os.path.join(VERIF, "seeded", f"{pid}-{suffix}{k}")
            os.makedirs(out, exist_ok=True)
            shutil.copy(patch, os.path.join(out, "patch.diff"))
            shutil.copy(demo, os.path.join(out, "demo.py"))
            m2 = dict(m)
            m2.update({"property": pid, "origin": "independent sub-agent given only the property text and a scratch worktree",
                       "confirmed": {"demo_on_unchanged": r0.returncode, "demo_on_changed": r1.returncode, "tests_with_change": t.stdout.strip(),
                                     "demo_output": r1.stdout[-400:]},
                       "checks_run": results,
                       "detected_by": [c for c, v in results.items() if v["rc"] == 1]})
            json.dump(m2, open(os.path.join(out, "meta.json"), "w"), indent=1)
        finally:
            shutil.rmtree(d, ignore_errors=True)


if __name__ == "__main__":
    main()
