#!/usr/bin/env python3
"""Write /tmp/promptb-<PID>.txt: the sub-agent prompt asking for property-PRESERVING changes (property text only, scratch worktree /tmp/wb-<PID>)."""
import json
import os

HERE = os.path.dirname(os.path.abspath(__file__))
d = json.load(open(os.path.join(HERE, "agent_prompts.json")))
TASK = open(os.path.join(HERE, "benign_task.txt")).read()
for p, s in d.items():
    head = s[: s.index("Your task:")].replace(f"/tmp/wt-{p}", f"/tmp/wb-{p}")
    open(f"/tmp/promptb-{p}.txt", "w").write(head + TASK.replace("@P@", p))
