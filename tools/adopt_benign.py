#!/usr/bin/env python3
"""Confirm and adopt property-PRESERVING changes written by sub-agents (the mirror image of adopt_seed.py).
usage: tools/adopt_benign.py <PID> [--checks C10,C14] [--tier quick]
For every /tmp/wb-<PID>/seed/patchK.diff: in a scratch copy of /repo confirm that it applies and that the 45 tests pass, then run
the named /verif checks against the changed copy (VERIF_REPO).  A check that reports a violation is either a false alarm of the
machinery (to be corrected) or the change does break the property after all (then it is not benign and is dropped / moved to
seeded/).  Kept changes go to /verif/benign/<PID>-K/{patch.diff, meta.json}."""
import json
import os
import shutil
import subprocess
import sys
import tempfile

VERIF = os.path.dirname(os.path.dirname(os.path.abspath(__file__)))


def sh(cmd, **kw):
    return subprocess.run(cmd, shell=True, stdout=subprocess.PIPE, stderr=subprocess.STDOUT, text=True, **kw)


def main():
    pid = sys.argv[1]
    checks, tier, suffix = [pid], "quick", ""
    for i, a in enumerate(sys.argv):
        if a == "--suffix":
            suffix = sys.argv[i + 1]
        if a == "--checks":
            checks = sys.argv[i + 1].split(",")
        if a == "--tier":
            tier = sys.argv[i + 1]
    seed = f"/tmp/wb-{pid}/seed"
    metas = json.load(open(os.path.join(seed, "meta.json")))
    if isinstance(metas, dict):
        metas = [metas]
    for k, m in enumerate(metas, 1):
        patch = os.path.join(seed, m.get("patch", f"patch{k}.diff"))
        d = tempfile.mkdtemp(prefix="nsv-benign-", dir="/tmp")
        try:
            sh(f"rsync -a --exclude .git /repo/ {d}/")
            env = dict(os.environ, PYTHONPATH=f"{d}/src")
            ap = sh(f"patch -p1 -s < {patch}", cwd=d)
            t = sh("/venv/bin/python -m pytest -q -p no:cacheprovider -x 2>&1 | tail -1", env=env, cwd=d, timeout=900)
            ok = ap.returncode == 0 and "45 passed" in t.stdout
            print(f"[{pid}-b{k}] apply rc={ap.returncode} tests: {t.stdout.strip()} -> {'OK' if ok else 'NOT USABLE'}")
            if not ok:
                print(ap.stdout[-300:])
                continue
            results = {}
            for c in checks:
                r = sh(f"{VERIF}/check {c} --tier {tier}", env=dict(os.environ, VERIF_REPO=d), cwd=VERIF, timeout=3600)
                lines = [l for l in r.stdout.splitlines() if l.startswith(("VIOLATION", "OK ", "MACHINERY", "  failing clause", "KNOWN", "EXTENDED"))]
                results[c] = {"rc": r.returncode, "lines": [l[:400] for l in lines[:6]]}
                print(f"   check {c}: rc={r.returncode} " + (" | ".join(l[:260] for l in lines[:3]) if lines else r.stdout[-300:]))
            out = os.path.join(VERIF, "benign", f"{pid}-{suffix}{k}")
            os.makedirs(out, exist_ok=True)
            shutil.copy(patch, os.path.join(out, "patch.diff"))
            m2 = dict(m)
            m2.update({"property": pid, "origin": "independent sub-agent given only the property text and a scratch worktree; asked for a property-preserving change",
                       "tests_with_change": t.stdout.strip(), "checks_run": results,
                       "alarms": [c for c, v in results.items() if v["rc"] != 0]})
            json.dump(m2, open(os.path.join(out, "meta.json"), "w"), indent=1)
        finally:
            shutil.rmtree(d, ignore_errors=True)


if __name__ == "__main__":
    main()
