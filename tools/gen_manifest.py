#!/usr/bin/env python3
"""Regenerate /verif/MANIFEST.json from the table below (one source of truth)."""
import json
import os

HERE = os.path.dirname(os.path.dirname(os.path.abspath(__file__)))

TRUST = "TLC 1.8 + the Float64 Java override (self-tested against numpy on every run); Python harness only drives/records"

CLAIMED = {
    "C10": dict(
        category="model_checking",
        technique="TLA+ spec Batch.tla model-checked by TLC; TLC behaviours replayed through CphotAng.__call__ with a scripted dask scheduler; traces of real dask schedulers validated against the spec (TraceBatch.tla)",
        text="Batch.tla specifies partitioning, any-order start/finish by W workers, failure and in-order gather; TLC checks OkIsIdentity / NeverSilent / PartitionResults / termination exhaustively for N<=6 and for the code's constants (PSize=100). Every maximal TLC behaviour of the replay instances is stepped through the real batch call, all completion orders x failure positions x partition sizes are run with an order-controlled scheduler, and executions under dask's synchronous/threads/processes schedulers are recorded; every execution is a trace validated by TLC against Batch.tla with result tokens obtained by bitwise comparison with one-at-a-time evaluation on fresh kernel objects.",
        note="Assumes: dask invokes callbacks in the scheduler thread (linearised log); intra-kernel thread interleavings are sampled not enumerated; result identity by bitwise equality with single-event evaluation.",
        design="4/C10"),
}

NOT_BUILT_REASON = "not claimed yet: its specification module and binding are not finished in this tree (see DESIGN.md section 9 build order); no other technique is substituted"


def main():
    props = [json.loads(l) for l in open(os.path.join(HERE, "properties.jsonl"))]
    checks, na = [], []
    for p in props:
        pid = p["id"]
        c = CLAIMED.get(pid)
        if not c:
            na.append({"property_id": pid, "reason": NOT_BUILT_REASON})
            continue
        checks.append({
            "property_id": pid,
            "quick_cmd": f"./check {pid} --tier quick",
            "thorough_cmd": f"./check {pid} --tier thorough",
            "evidence_file": f"/verif/evidence/{pid}.json",
            "replay_cmd_template": f"./check {pid} --replay {{path}}",
            "engine": "tlc",
            "level_claimed": {"category": c["category"], "text": c["text"], "design_ref": "DESIGN.md section " + c["design"]},
            "level_note": c["note"] + " Trusted base: " + TRUST,
            "technique": c["technique"],
        })
    m = {
        "version": 1,
        "setup_cmd": "sh /verif/setup.sh",
        "hooks": {
            "guard": "NUSPACESIM_VERIF_DTYPE",
            "enable": "checks import nuspacesim from $VERIF_REPO/src (default /repo/src), i.e. the current working tree; the only hook (planned, add-only) is NUSPACESIM_VERIF_DTYPE=float64 in CphotAng.__init__",
            "baseline_off_cmd": "cd /repo && env -u NUSPACESIM_VERIF_DTYPE /venv/bin/python -m pytest -ra -q -p no:cacheprovider --timeout=900 --continue-on-collection-errors",
            "source_commits": [],
            "add_only": True,
        },
        "engines": [{"name": "tlc", "path": "/verif/check", "serves_properties": [c["property_id"] for c in checks],
                     "kind_free_text": "TLC 1.8 model checking of the TLA+ suite under /verif/spec (with a Java Float64 module override) + trace validation / behaviour replay against the working tree"}],
        "checks": checks,
        "notes": "Every check is decided by TLC on a TLA+ specification under /verif/spec; Python only drives the implementation and records traces. known_findings.json lists repaired (fixed:) and remaining (known) genuine defects.",
        "not_applicable": na,
    }
    with open(os.path.join(HERE, "MANIFEST.json"), "w") as f:
        json.dump(m, f, indent=1)
    print(f"MANIFEST.json: {len(checks)} checks, {len(na)} not claimed")


if __name__ == "__main__":
    main()
