#!/usr/bin/env python3
"""Regenerate /verif/MANIFEST.json from the table below (one source of truth)."""
import json
import os

HERE = os.path.dirname(os.path.dirname(os.path.abspath(__file__)))

TRUST = "TLC 1.8 + the Float64 Java override (self-tested against numpy on every run); Python harness only drives/records"

CLAIMED = {
    "C10": dict(
        category="model_checking",
        technique="TLA+ spec Batch.tla model-checked by TLC and, for unbounded N / segmentation / workers, proved with the TLA+ proof system (BatchProof.tla, refinement to Batch checked by TLC); TLC behaviours replayed through CphotAng.__call__ with a scripted dask scheduler; traces of real dask schedulers validated against the spec (TraceBatch.tla)",
        text="Batch.tla specifies partitioning (any consecutive segmentation; the code's uniform rule as instance), any-order start/finish by W workers, failure and in-order gather; TLC checks OkIsIdentity / NeverSilent / PartitionResults / termination exhaustively for N<=5, all compositions of <=4 events and the code's constants (PSize=100); BatchProof.tla states the same design with the gather as a loop and tlapm proves Spec => [](OkIsIdentity /\\ NeverSilent) without any bound (89 obligations), TLC checking on small constants that BatchProof refines Batch. Every maximal TLC behaviour of the replay instances is stepped through the real batch call, all completion orders x failure positions x partition sizes are run with an order-controlled scheduler, and executions under dask's synchronous/threads/processes schedulers are recorded; every execution is a trace validated by TLC against Batch.tla with result tokens obtained by bitwise comparison with one-at-a-time evaluation (run() on the event's own values) on fresh kernel objects; batches in mixed dtypes, at other detector altitudes, with the configured cloud-model object as callback, single-event and empty batches included.",
        note="Assumes: dask invokes callbacks in the scheduler thread (linearised log); intra-kernel thread interleavings are sampled not enumerated; result identity by bitwise equality with single-event evaluation.",
        design="4/C10"),
    "C17": dict(
        category="model_checking",
        technique="TLA+ spec NuSpaceSim.tla (pipeline, staged writer, crash/failure) model-checked by TLC; TLC-enumerated (configuration, crash point) fault plan realised on compute(); every run validated as a trace (TraceNuSpaceSim.tla)",
        text="NuSpaceSim.tla models stages enabled by data dependencies, the two-step staged writer (mutate, rewrite), stage failure and process death; TLC checks DiskIsMemAtBoundary / DiskIsCommitted / DiskIsPrefix / NoWriteWhenDisabled / StaleReplaced / FileOnlyGrows over all 64 configurations (incl. a file of an earlier run already at the output path) x all linearisations x all crash points (1.6e6 states). The fault plan printed by TLC is executed on the real compute(): exception at every boundary, exception inside every stage method, os._exit in a subprocess; an instrumented results table logs every mutation with the output file read back, and TLC validates each run against the model; runs with the output file named by a str / path object / other extensions, with a pre-existing file at the output path, with zero or one surviving trajectory, with and without write_stages.",
        note="Assumes: astropy's FITS reader for read-back; process death between staged-writer calls (not inside a write); header floats compared at FITS card precision (16 significant digits).",
        design="4/C17"),
    "C14": dict(
        category="model_checking",
        technique="TLA+ specs NuSpaceSim.tla (FinalStructure) and RunMatrix.tla (product state of runs: reproducible, optical-/radio-isolated) checked by TLC; the TLC-enumerated configuration matrix executed on compute() under 4 schedulers and validated as traces",
        text="FinalStructure (exact columns/header keywords per configuration, early return) is an invariant of NuSpaceSim.tla over all linearisations; RunMatrix.tla states (R), (I-opt), (I-rad) over a set of runs, model-checked on an abstract simulator with a leaky counter-model that must fail. The run matrix {Diffuse,Target}x{mono,power}x{none,uniform,map}x{33,525 km} (covering subset in quick, full in thorough) is run with channel switches and the sync / threads-4 / processes-2 / order-reversed schedulers; per-run mutation traces and the run-set trace are validated by TLC; thorough also compares the `nuspacesim run` CLI output file with the API result.",
        note="Assumes: column identity = SHA-256 of dtype/shape/bytes; numpy's global generator seeded by np.random.seed; per-row cross-stage consistency is decided by the stage properties C03/C05/C07/C08 on the same tables.",
        design="4/C14"),
    "C11": dict(
        category="model_checking",
        technique="TLA+ specs StageHistory.tla (stateless-service call histories) and MaskScatter.tla (mask/compress/scatter in buffer chunks, with two rejected bug variants) checked by TLC; TLC's histories replayed on one object of each of 14 stage entry points; replays validated as traces (TraceStageHistory.tla)",
        text="StageHistory's state space is the set of all call histories (ids 1..3, batches<=3, <=3 calls: 60880); a sample (quick) or ~3000 (thorough) is replayed on ONE object of every stage entry point with ids mapped to pool events that include the boundary classes, plus single-event batches, full/reversed/split pool batches and tiled batches of 8191/8192/8193/20000 elements; TLC checks per call that every position's output digest equals the memo for that event and that input arrays are intact.",
        note="Assumes: fixed random numbers via explicit u or a constant np.random shim; per-position identity by digest of all public per-event outputs.",
        design="4/C11"),
    "C03": dict(
        category="model_checking",
        technique="TLA+ spec Acceptance.tla (estimators over Float64) model-checked by TLC on a lattice placed on the cut values; every mcintegral evaluation of the code (direct calls + full runs) recomputed by TLC from the event columns (TraceAcceptance.tla)",
        text="Acceptance.tla states the diffuse and target estimators from the table columns (weight from beta/theta/path_len, cone cut, trigger cut, dark-sky cut for target-optical only, x0.826 x pexit, / thrown); TLC checks permutation invariance, threshold monotonicity, <= 0.826 x geometric, dark-sky-only-removes and division by thrown on a lattice with values ON the thresholds. Direct calls of RegionGeom/RegionGeomToO.mcintegral with constructed arrays (trigger = threshold, one ulp below, detector exactly on / just outside the cone, decay at the detector distance) and the header values of full runs (thresholds placed at the median signal of each channel) are trace events whose integral, geometry-only integral, passing count and per-event contribution column TLC recomputes to 1e-9.",
        note="Assumes: dark-sky booleans from astropy evaluated by the harness from configuration values; radio trigger = public calculate_snr on the EFields column; finite triggers (the quantifier of C03).",
        design="4/C03"),
    "C04": dict(
        category="model_checking",
        technique="TLA+ specs GridInterp.tla/TauTables.tla with the shipped tables as constants; MCGridInterp exhaustive over all monotone rows with plateaus; TLC evaluates the forward map F(z|E,beta)=u for every event recorded from grid_cdf_sampler / Taus.tau_energy (TraceTau.tla)",
        text="The inverse transform is specified through the forward map (bilinear blend of the four neighbouring CDF rows, piecewise-linear in z), so plateaus need no special case. MCGridInterp checks exhaustively (all 35 rows over {0,1/4,..,1} x blends x queries) that the inverse is well defined, monotone and in range. The three shipped tables are read by TLC as JSON bit pairs; per recorded event TLC checks |F(z)-u|<=1e-12, z within the fraction axis, monotonicity in u within groups (stateful), the clamp rule below the table, the 1.19e-7 rule above it, rejection of out-of-table energies, and bit-equality of explicit-u and internal-generator calls; synthetic NssGrid grids are replayed through the sampler as well.",
        note="Assumes: h5py export of the shipped files is the specification constant; scipy's bracketing convention is irrelevant at 1e-12.",
        design="4/C04"),
    "C05": dict(
        category="model_checking",
        technique="TLA+ spec TauTables.tla (Pexit = 10^bilerp(log10 floored table), clamps) model-checked over ALL nodes and cell centres of the three shipped tables; every Taus.tau_exit_prob event recomputed by TLC (TraceTau.tla); history independence via StageHistory traces",
        text="MCTauTables walks all 25x51 nodes of each shipped table: node exactness, cell-centre value between the four corner values and in (0,1], clamp rules. Recorded events (all nodes, edges, centres, random points, below/above the angle range, out-of-range energies; several calls with different batch compositions on one object) are compared with the spec at 1e-12 (1e-5 for the above-table floor whose value the property gives as 1.19e-7).",
        note="Assumes: h5py export of the shipped files; history independence is additionally decided by C11's interleaved Taus histories.",
        design="4/C05"),
    "C07": dict(
        category="model_checking",
        technique="TLA+ spec Kinematics.tla model-checked on a lattice (MCKinematics) + TauTables.TauAboveMass over all nodes and cells; Taus.__call__ / EAS.altDec events recomputed by TLC (TraceTau.tla)",
        text="Kinematics.tla states gamma, beta_tau, shower energy, decay length, exponential law and decay altitude with constants written in the specification; MCKinematics checks ranges and monotonicity on a lattice including u=1 and u=5e-324; TauAboveMass shows gamma>=1 for every reachable tau energy of every table node and interpolation cell. Recorded events (four shower fractions, energies 1e6..1e12 GeV, beta in [0,42 deg], boundary u) are checked per formula at 1e-12/1e-9, plus monotonicity pairs and explicit-u vs internal generator.",
        note="Assumes: Earth radius is a parameter taken from astropy.constants.R_earth (the property fixes only that one sphere is used).",
        design="4/C07"),
    "C18": dict(
        category="model_checking",
        technique="TLA+ specs GridFile.tla (file = register, model-checked), GridInterp.tla and TauTables.tla soundness predicates evaluated by TLC on all nodes of the six shipped tables; NssGrid write/read, grid_slice_interp and vec_1d_interp events validated by TraceGrid.tla",
        text="GridFile.tla gives files register semantics (a read returns the last write, all of it), model-checked with overwrites; the trace spec applies it to NssGrid.write/read in HDF5 and FITS over grids of 1-4 dimensions, extents 1-3, dtypes f8/f4/i4/i8, ASCII/Unicode names (bitwise comparison of data, axes, names, shape). Slices at nodes, midpoints and thirds (by index and by name) are recomputed by TLC as the stored sub-grid / linear blend; vec_1d_interp rows with plateaus are compared with ordinary piecewise-linear interpolation; AxesSound, RowsSound (0..1 within 1e-15), PexitSound and TauAboveMass are evaluated by TLC over every node and cell of nu2tau_cdf/pexit.1-3.",
        note="Assumes: FITS big-endian arrays compared by value; non-ASCII axis names are outside the FITS half of the quantifier; byte-level formats are not modelled (API-level Read o Write).",
        design="4/C18"),
    "C12": dict(
        category="model_checking",
        technique="TLA+ spec Spectrum.tla (CDF/quantile with expm1/log1p, integral) model-checked on a lattice incl. index 1 and 1 +- ulp; Spectra(config)(N) events under a scripted / recorded np.random validated by TraceSpectrum.tla (backward error CDF(x) = u)",
        text="MCSpectrum checks backward error, range, monotonicity and end points of the specified quantile for indices {0, 1/2, 1-ulp, 1, 1+ulp, 2, 2.2, 3, 4} x three ranges x nine u values including 0, 5e-324 and 1. The code is driven with prescribed uniforms (incl. 0, denormals and the number that maps to u = 1) through an np.random shim that records what the code actually received, and with the real generator under a recorder; per event TLC checks CDF(x) = u to 1e-9 (well conditioned where the inverse is not), the range, exactness for mono spectra, N in {0, 1, 7, many}, and that the two returned factors are finite, equal 1/I and I, and multiply to 1.",
        note="Assumes: uniforms are paired with events only when exactly one draw per event in event order was observed (otherwise only range/factor clauses apply).",
        design="4/C12"),
    "C19": dict(
        category="model_checking",
        technique="TLA+ spec StdAtmosphere.tla over the shipped layer table (exported constants, TableSound) model-checked on a 0..120 km lattice + all layer boundaries +- 60 ulps; both shipped copies traced and validated by TraceAtmosphere.tla",
        text="MCStdAtmosphere walks altitudes 0..120 km in 50 m (quick) / 1 m (thorough) steps and each layer boundary +- 60 ulps: round trips within the property's own tolerances, positivity, near-monotonicity (3e-7), end points 0 <-> inf, continuity of the table. Both copies are called on ascending series, boundary neighbourhoods, pressure grids and tabulated base pressures +- 30 ulps, as arrays, 0-d arrays, scalars, integers (signed / unsigned), binary32, 2-D and Fortran-ordered arrays and reused argument buffers; per point TLC compares with the spec (1e-12), the copies bit for bit, the code's own round trips and, statefully along a series, the 3e-7 step bound.",
        note="Assumes: the layer table is implementation data (nuspacesim.constants) exported to TLC; its soundness, not its numerical values, is checked.",
        design="4/C19"),
    "C13": dict(
        category="model_checking",
        technique="TLA+ spec GeomTarget.tla model-checked on a lattice (triangle identities, keep rule, Dark monotone); RegionGeomToO.throw/__call__ and ToOEvent.sun_moon_cut events validated by TraceGeomTarget.tla with celestial positions supplied by the harness from astropy",
        text="MCGeomTarget checks over 4 detector altitudes x 3 limb angles x source altitudes -90..+10 deg in 0.25 deg steps that every kept direction closes the Earth-centre/detector/spot triangle (spot on the surface, emergence angle = angle above the local horizontal), that the keep rule is the conjunction of its masks, and that Dark is monotone in each threshold. Random configurations (source, start date 2016-2023, duration, N, detector lat/lon/altitude 5..36000 km, limb angle, thresholds) are thrown through throw and __call__; per instant TLC checks the time grid, the keep rule against the harness-computed source altitude, the triangle clauses on the reported beta/theta/path, return-array lengths, and the dark-sky boolean against harness-computed Sun/Moon altitudes and phase angle.",
        note="Assumes: astropy (coordinates, ephemerides, UTC) is the environment; booleans within 1e-9 rad of a threshold are inconclusive. 'Optical only / only removes' is decided by C03.",
        design="4/C13"),
    "C08": dict(
        category="model_checking",
        technique="TLA+ spec Optical.tla (straight-line distance law, PE formula, range rule, effective-cone rule) with the cone rule model-checked on a lattice; kernel and EAS.__call__ events validated by TraceOptical.tla",
        text="MCOptical checks on ratios {0, 1, 2-ulp, 2, 2+ulp, e, 10, 1e6, 1e300} that the effective angle is never smaller than the intrinsic one, never decreases with signal, jumps to sqrt(2 ln 2) just above 2 and that the max is never binding above 2. The same kernel events are evaluated for detectors at 33..36000 km and at the 525 km reference (ratio law to 1e-3 with distances from an independent straight-line formula; angle bit-identical); EAS batches with altitudes in and out of range (incl. +-0, 20 +- ulp) under four (area, efficiency, threshold, altitude) settings are traced with the kernel wrapped to log which events reach it: PE = density x area x efficiency (<=4 ulp), exact zero / cos(1.5 deg) outside the range without simulation, cone rule to 1e-12.",
        note="Assumes: ratio-law tolerance 1e-3 because the kernel holds the angle and Earth radius in binary32.",
        design="4/C08"),
    "C09": dict(
        category="model_checking",
        technique="TLA+ spec Clouds.tla (kernel regimes; constant models; map lookup as altitude of the map pressure at a corner of the containing cell, on StdAtmosphere.tla) with the monthly maps as TLC constants; MCClouds lattice over the sphere; CphotAng.run(..., cloudf) and CloudTopHeight events validated by TraceClouds.tla",
        text="MCClouds walks the sphere (0.25 deg x 0.625 deg incl. poles, +-180 deg, longitudes up to +-360 deg) and shows the cell predicate total and the regimes exhaustive. Kernel events use cloud tops at -inf, first segment -ulp / exact / +ulp, an inner segment, penultimate segment exact / +ulp, last segment and +inf (segment altitudes from the public slant_depth / valid_arrays): bit-identical below, exactly zero above. The cloud models are called on sphere lattices and on ground positions produced by the geometry stage; for the monthly maps (read with astropy.io.fits and exported to TLC) the returned altitude must equal the standard-atmosphere altitude of one of the four corner pressures of the containing cell.",
        note="The 'in between' regime is decided by Cherenkov.tla (cloud tops half-way between two segment altitudes; float64 hook path at 1e-9, production path at C06 tolerances). Known finding C09-high-cloud-binary32 (tops above 35 km). Any corner of the containing cell conforms.",
        design="4/C09"),
    "C20": dict(
        category="model_checking",
        technique="TLA+ spec Radio.tla: bin sets model-checked exhaustively over all 13 695 aligned bands (with an unaligned counter-model that must fail); band and shower events of the real radio chain validated by TraceRadio.tla",
        text="MCRadio proves for every 10 MHz-aligned band in 0-1650 MHz that the field bins and the antenna/noise bins are the same set. Bands (all in thorough, 289 in quick) are pushed through RadioEFieldParams and calculate_snr with the antenna-voltage and noise functions wrapped to log the bin centres they receive; TLC compares count and centres with the spec sets. Shower batches come from the real geometry/tau/decay stages (33, 525, 2000 km; energies 1e9-1e11 GeV) with boundary altitudes made geometrically consistent and a decay exactly at the surface; each is evaluated with E and 3E, 3 and 12 antennas, permuted, under a constant random stream: proportionality (1e-13), sqrt(N) law, order independence (bitwise), exact zeros outside [0, 10] km, finiteness.",
        note="Assumes: fixed random numbers = constant np.random stream; field bin centres are the centres of the shipped parameter file.",
        design="4/C20"),
    "C01": dict(
        category="model_checking",
        technique="TLA+ spec GeomDiffuse.tla (region, CDFs, densities, measure, Jacobian identity, quantile) model-checked on a lattice of 120 regions; every thrown trajectory and a Sobol equal-weight quadrature of mcintegral validated by TraceGeomDiffuse.tla against an independent aperture quadrature evaluated by TLC",
        text="MCGeomDiffuse checks for altitudes 5..36000 km x limb x cone x azimuth range that the four CDFs are 0/1 at the region's ends, the densities are their derivatives, weight x mcnorm x pdf equals integrand x measure density pointwise, and the trigonometric quantile inverts the CDF on the closed interval. RegionGeom.throw(u) is driven with u on faces, corners, denormals and 1-2^-53 of the closed cube and random u; per event TLC checks the four inverse-CDF clauses as backward errors (1e-9), mcnorm against its closed form (1e-11), the Jacobian identity on the reported cosines, the keep rule from explicit vectors. An equal-weight sum of the estimator over 65536 (quick) / 262144 (thorough) midpoint strata in u4 x scrambled-Sobol points in (u1, u2), for 6 configurations, is compared by TLC (0.4 %) with a midpoint rule over an independent physical parametrisation (normal-to-line-of-sight angle x cone angle, azimuth integral in closed form).",
        note="Assumes: events within 1e-9 of the keep boundary are inconclusive; quadrature band 0.4 % (observed deviation <= 0.19 %, a known negative bias of midpoint strata at the integrable horizon singularity); small-angle errors below that band are caught by the per-event mcnorm / identity clauses.",
        design="4/C01"),
    "C02": dict(
        category="model_checking",
        technique="TLA+ spec GeomDiffuse.tla (explicit ECEF vectors, emergence angle, positions along the trajectory) with the lattice model MCGeomDiffuse; every thrown trajectory, reported position and __call__ return validated by TraceGeomDiffuse.tla (stateful: azimuth convention inferred per series)",
        text="Same traces as C01. Per event TLC checks: line-of-sight length in [lMin, lMax] and CDF(l) = u4 on the closed cube (faces included); spot latitude/longitude ranges; |D - S| = l and the Earth-central angle from explicit ECEF vectors of detector and spot; cos(trajectory, normal) and the emergence angle recomputed from explicit vectors; the keep rule; that the spot azimuth about the detector nadir is phiS under one fixed convention (inferred from the first event of a series, then enforced); positions at s in {0, 1, 50, 500, random} km have the ground offset atan2(s cos b, R + s sin b); __call__ returns one entry per kept trajectory. Detector positions include both poles and the date line.",
        note="Assumes: altitude of a reported position is not observable (only latitude/longitude are returned), so the offset clause decides that part; 1e-9 inconclusive band at the keep boundary.",
        design="4/C02"),
    "C15": dict(
        category="model_checking",
        technique="TLA+ spec ConfigModel.tla (unit table, input forms, acceptance/conversion, month grammar, configuration variants) with GridFile.tla register semantics for the TOML file; the plans printed by TLC (675 field x form x unit cases, 720 variants) replayed on NssConfig / create_toml / config_from_toml / the create-config CLI and validated by TraceConfig.tla",
        text="ConfigModel.tla gives every dimensional field a kind and canonical unit, a unit table with factors, the three input forms, the month grammar and the variant space (spectrum x cloud x mode x string class x which optional section is None); MCConfigModel checks the register over all representable variants and that the acceptance table is total. Every (field, form, unit) case is executed with two values and judged by TLC (accepted iff the unit kind matches; stored value = value x factor to 4 ulp); band validation; 93 month inputs; TOML round trips of the variants (all 720 thorough / 150 quick) with boundary floats (0.1+0.2, 1e-7, pi/2, 359.999999999 deg ...) and quote / backslash / non-ASCII / newline / empty strings, compared field by field (angles <= 4 ulp, everything else exactly); six create-config CLI invocations.",
        note="Known finding C15-none-section: a configuration whose Optional section is None cannot be written (TypeError); printed as KNOWN-FINDING, any other failure of the same clause is still a violation. TOML byte format not modelled.",
        design="4/C15"),
    "C16": dict(
        category="model_checking",
        technique="TLA+ spec ResultsFile.tla: file as register (GridFile.tla), header-contains-configuration, and the reconstructed-field invariant over the product state of (configuration, reconstruction) pairs, model-checked with a buggy reconstructor that must fail; results files of real runs validated by the stateful TraceResultsFile.tla",
        text="'A field it reconstructs' is defined without the implementation's mapping table: g is reconstructed iff two files give different Recon(.).g; then Recon(c).g = c.g is required for every run - an invariant over the set of runs that TLC evaluates after the last reconstruction event (MCResultsFile shows it holds for a faithful reconstructor, fails for one that fills a field from the wrong card, and never judges a defaulted field). Final tables of compute() runs over variants in which EVERY configuration field varies, plus synthetic tables (2-D column, Time column, empty table), are written exactly as apps/run.py does and read back: same columns, bit-identical data (digests), every header value (FITS card precision), every representable flattened configuration value present as a HIERARCH Config card, config_from_fits succeeds for every variant, one configuration object is edited in place between tables, and the show-plot application reloads every file (all channel combinations; plot functions replaced by recorders).",
        note="Assumes: values FITS cannot represent (non-finite numbers, non-ASCII or long strings) are outside the quantifier; header floats at FITS card precision (astropy truncates str(value) to 20 characters).",
        design="4/C16"),
    "C06": dict(
        category="model_checking",
        technique="TLA+ spec Cherenkov.tla: the shower / photon-yield model in double precision as a state machine over track steps (two passes, Greisen, Hillas, Rayleigh / ozone / aerosol), spec-level checks by TLC (MCCherenkov) and one model evaluation by TLC per recorded CphotAng.run event (TraceCherenkov.tla), production binary32 path and float64 hook path",
        text="Cherenkov.tla is written from the physical model (DESIGN Appendix A) as scalar folds over steps, wavelength bins, radial bins and energy decades - not a transliteration of the array code - and TLC evaluates it with the Float64 override (~1-4 s per event). MCCherenkov checks termination, finite non-negative outputs, the 1 degree clamp and the cloud regimes on boundary events. Every recorded event (scrambled Sobol design in beta x altitude x log E plus all corners, face points, sub-degree angles, several detector altitudes) is judged twice against the model: the production binary32 outputs with the property's own tolerances (10 % or 0.1 m^-2, 1 % angle, 0.5 % in the median per chunk), and the same kernel run in double precision through the hook at 1e-9, which separates logic changes (cumulative-sum direction, masks, table lookups, index conventions) from rounding. Sub-degree events must be bit-identical to the 1 degree result.",
        note="Assumes: the hook NUSPACESIM_VERIF_DTYPE=float64 only changes the kernel dtype (if inactive the float64 clauses are reported as not exercised); StrictMath vs libm differences are far below 1e-9; proof over all reals is out of reach - coverage is the design + boundaries.",
        design="4/C06 and Appendix A"),
}

NOT_BUILT_REASON = "not claimed yet: its specification module and binding are not finished in this tree (see DESIGN.md section 9 build order); no other technique is substituted"


def main():
    props = [json.loads(l) for l in open(os.path.join(HERE, "properties.jsonl"))]
    checks, na = [], []
    for p in props:
        pid = p["id"]
        c = CLAIMED.get(pid)
        if not c:
            na.append({"property_id": pid, "reason": NOT_BUILT_REASON})
            continue
        checks.append({
            "property_id": pid,
            "quick_cmd": f"./check {pid} --tier quick",
            "thorough_cmd": f"./check {pid} --tier thorough",
            "evidence_file": f"/verif/evidence/{pid}.json",
            "replay_cmd_template": f"./check {pid} --replay {{path}}",
            "engine": "tlc",
            "level_claimed": {"category": c["category"], "text": c["text"], "design_ref": "DESIGN.md section " + c["design"]},
            "level_note": c["note"] + " Trusted base: " + TRUST,
            "technique": c["technique"],
        })
    m = {
        "version": 1,
        "setup_cmd": "sh /verif/setup.sh",
        "hooks": {
            "guard": "NUSPACESIM_VERIF_DTYPE",
            "enable": "checks import nuspacesim from $VERIF_REPO/src (default /repo/src), i.e. the current working tree; the only hook (add-only, commit 04b3d69) is NUSPACESIM_VERIF_DTYPE=float64 in CphotAng.__init__, set by the C06 / C09 drivers around the construction of the double-precision kernel object. The C++ stepping kernel (zsteps.cpp) is rebuilt from the working tree by every check (stand-in pybind11 headers under /verif/zshim, g++, ctypes, import hook; compared bit for bit with the prebuilt extension when the source is the pinned one)",
            "baseline_off_cmd": "cd /repo && env -u NUSPACESIM_VERIF_DTYPE /venv/bin/python -m pytest -ra -q -p no:cacheprovider --timeout=900 --continue-on-collection-errors",
            "source_commits": ["04b3d69"],
            "add_only": True,
        },
        "engines": [{"name": "tlc", "path": "/verif/check", "serves_properties": [c["property_id"] for c in checks],
                     "kind_free_text": "TLC 1.8 model checking of the TLA+ suite under /verif/spec (with a Java Float64 module override) + trace validation / behaviour replay against the working tree"}],
        "checks": checks,
        "notes": "Every check is decided by TLC on a TLA+ specification under /verif/spec; Python only drives the implementation and records traces. known_findings.json lists repaired (fixed:) and remaining (known) genuine defects.",
        "not_applicable": na,
    }
    with open(os.path.join(HERE, "MANIFEST.json"), "w") as f:
        json.dump(m, f, indent=1)
    print(f"MANIFEST.json: {len(checks)} checks, {len(na)} not claimed")


if __name__ == "__main__":
    main()
