#!/usr/bin/env python3
"""Run checks against the seeded changes kept under /verif/seeded/<id>/ (and optionally /verif/mutants/*.diff).
usage: tools/check_seeded.py [--only ID,ID] [--tier quick] [--mutants] [--benign]
Each patch is applied to a scratch copy of /repo under /tmp (removed afterwards); the check of the seed's property is run with
VERIF_REPO pointing at the copy; meta.json gets the outcome."""
import json
import os
import shutil
import subprocess
import sys
import tempfile
from concurrent.futures import ThreadPoolExecutor

VERIF = os.path.dirname(os.path.dirname(os.path.abspath(__file__)))


def sh(cmd, **kw):
    return subprocess.run(cmd, shell=True, stdout=subprocess.PIPE, stderr=subprocess.STDOUT, text=True, **kw)


def one(item):
    name, patch, checks, tier = item
    d = tempfile.mkdtemp(prefix="nsv-seedchk-", dir="/tmp")
    try:
        sh(f"rsync -a --exclude .git /repo/ {d}/")
        ap = sh(f"patch -p1 -s < {patch}", cwd=d)
        if ap.returncode != 0:
            return name, {"apply_failed": ap.stdout[-300:]}
        res = {}
        for c in checks:
            r = sh(f"{VERIF}/check {c} --tier {tier}", env=dict(os.environ, VERIF_REPO=d), cwd=VERIF, timeout=7200)
            lines = [l for l in r.stdout.splitlines() if l.startswith(("VIOLATION", "OK ", "MACHINERY", "  failing clause"))]
            res[c] = {"rc": r.returncode, "first": (lines[0][:260] if lines else r.stdout[-200:])}
        return name, res
    finally:
        shutil.rmtree(d, ignore_errors=True)


def main():
    only, tier, mut, par, benign = None, "quick", False, 2, False
    a = sys.argv[1:]
    for i, x in enumerate(a):
        if x == "--only":
            only = set(a[i + 1].split(","))
        if x == "--tier":
            tier = a[i + 1]
        if x == "--mutants":
            mut = True
        if x == "--benign":
            benign = True
        if x == "--par":
            par = int(a[i + 1])
    items = []
    sdir = os.path.join(VERIF, "seeded")
    if benign:
        # property-preserving changes: every check that was run on them must stay quiet (rc 0)
        bdir = os.path.join(VERIF, "benign")
        for name in sorted(os.listdir(bdir)):
            if only and name not in only and name.split("-")[0] not in only:
                continue
            meta = json.load(open(os.path.join(bdir, name, "meta.json")))
            if meta.get("skip_in_matrix"):
                continue
            items.append(("benign:" + name, os.path.join(bdir, name, "patch.diff"), sorted(meta.get("checks_run") or [meta["property"]]), tier))
        with ThreadPoolExecutor(max_workers=par) as ex:
            for name, res in ex.map(one, items):
                alarms = [c for c, v in res.items() if isinstance(v, dict) and v.get("rc") != 0]
                print(f"{name:24s} alarms={alarms}  " + "; ".join(f"{c}: rc={v.get('rc')}" for c, v in res.items() if isinstance(v, dict)))
                mp = os.path.join(bdir, name.split(":")[1], "meta.json")
                meta = json.load(open(mp))
                if "apply_failed" in res:
                    print(f"   {name}: PATCH DOES NOT APPLY to the current tree: {res['apply_failed'][-200:]}")
                    continue
                meta["checks_run"] = res
                meta["alarms"] = alarms
                json.dump(meta, open(mp, "w"), indent=1)
        return
    for name in sorted(os.listdir(sdir)):
        if only and name not in only and name.split("-")[0] not in only:
            continue
        meta = json.load(open(os.path.join(sdir, name, "meta.json")))
        checks = meta.get("check_with") or [meta["property"]]
        items.append((name, os.path.join(sdir, name, "patch.diff"), checks, tier))
    if mut:
        mdir = os.path.join(VERIF, "mutants")
        for f in sorted(os.listdir(mdir)):
            if f.endswith(".diff"):
                pid = f.split("_")[0].upper()
                if only and pid not in only:
                    continue
                items.append(("mutant:" + f[:-5], os.path.join(mdir, f), [pid], tier))
    with ThreadPoolExecutor(max_workers=par) as ex:
        for name, res in ex.map(one, items):
            det = [c for c, v in res.items() if isinstance(v, dict) and v.get("rc") == 1]
            print(f"{name:32s} detected_by={det}  " + "; ".join(f"{c}: rc={v.get('rc')}" for c, v in res.items() if isinstance(v, dict) and "rc" in v))
            if "apply_failed" in res:
                print(f"   {name}: PATCH DOES NOT APPLY to the current tree")
                continue
            if not name.startswith("mutant:"):
                mp = os.path.join(sdir, name, "meta.json")
                meta = json.load(open(mp))
                meta["checks_run"] = res
                meta["detected_by"] = det
                json.dump(meta, open(mp, "w"), indent=1)


if __name__ == "__main__":
    main()
