package tlc2.module;

import tlc2.value.impl.BoolValue;
import tlc2.value.impl.IntValue;
import tlc2.value.impl.StringValue;
import tlc2.value.impl.TupleValue;
import tlc2.value.impl.Value;

/**
 * IEEE-754 binary64 arithmetic for TLC.  A double is the TLA+ tuple <<hi, lo>> of the two
 * signed 32-bit halves of its bit pattern.  Overrides the operators of Float64.tla.
 * Transcendentals use java.lang.StrictMath (fdlibm).
 */
public class Float64 {
    public static final long serialVersionUID = 20260926L;

    private static double d(final Value v) {
        final TupleValue t = (TupleValue) v.toTuple();
        if (t == null || t.elems.length != 2) {
            throw new RuntimeException("Float64: expected <<hi, lo>>, got " + v);
        }
        final long hi = ((IntValue) t.elems[0]).val;
        final long lo = ((IntValue) t.elems[1]).val;
        return Double.longBitsToDouble((hi << 32) | (lo & 0xFFFFFFFFL));
    }

    private static Value v(final double x) {
        final long b = Double.doubleToRawLongBits(x);
        return new TupleValue(IntValue.gen((int) (b >> 32)), IntValue.gen((int) b));
    }

    private static Value b(final boolean x) {
        return x ? BoolValue.ValTrue : BoolValue.ValFalse;
    }

    public static Value FAdd(final Value a, final Value c) { return v(d(a) + d(c)); }
    public static Value FSub(final Value a, final Value c) { return v(d(a) - d(c)); }
    public static Value FMul(final Value a, final Value c) { return v(d(a) * d(c)); }
    public static Value FDiv(final Value a, final Value c) { return v(d(a) / d(c)); }
    public static Value FNeg(final Value a) { return v(-d(a)); }
    public static Value FAbs(final Value a) { return v(Math.abs(d(a))); }
    public static Value FSqrt(final Value a) { return v(Math.sqrt(d(a))); }
    public static Value FCbrt(final Value a) { return v(StrictMath.cbrt(d(a))); }
    public static Value FExp(final Value a) { return v(StrictMath.exp(d(a))); }
    public static Value FLn(final Value a) { return v(StrictMath.log(d(a))); }
    public static Value FExpm1(final Value a) { return v(StrictMath.expm1(d(a))); }
    public static Value FLog1p(final Value a) { return v(StrictMath.log1p(d(a))); }
    public static Value FLog10(final Value a) { return v(StrictMath.log10(d(a))); }
    public static Value FPow(final Value a, final Value c) { return v(StrictMath.pow(d(a), d(c))); }
    public static Value FSin(final Value a) { return v(StrictMath.sin(d(a))); }
    public static Value FCos(final Value a) { return v(StrictMath.cos(d(a))); }
    public static Value FTan(final Value a) { return v(StrictMath.tan(d(a))); }
    public static Value FAsin(final Value a) { return v(StrictMath.asin(d(a))); }
    public static Value FAcos(final Value a) { return v(StrictMath.acos(d(a))); }
    public static Value FAtan(final Value a) { return v(StrictMath.atan(d(a))); }
    public static Value FAtan2(final Value a, final Value c) { return v(StrictMath.atan2(d(a), d(c))); }
    public static Value FHypot(final Value a, final Value c) { return v(StrictMath.hypot(d(a), d(c))); }
    public static Value FFloor(final Value a) { return v(Math.floor(d(a))); }
    public static Value FMin(final Value a, final Value c) { return v(Math.min(d(a), d(c))); }
    public static Value FMax(final Value a, final Value c) { return v(Math.max(d(a), d(c))); }
    public static Value FMod(final Value a, final Value c) {
        final double x = d(a), m = d(c);
        double r = x % m;               // C fmod
        if (r != 0 && ((r < 0) != (m < 0))) { r += m; }   // python/numpy sign convention
        return v(r);
    }
    public static Value FLt(final Value a, final Value c) { return b(d(a) < d(c)); }
    public static Value FLe(final Value a, final Value c) { return b(d(a) <= d(c)); }
    public static Value FEq(final Value a, final Value c) { return b(d(a) == d(c)); }
    public static Value FIsFinite(final Value a) { final double x = d(a); return b(!Double.isNaN(x) && !Double.isInfinite(x)); }
    public static Value FIsNaN(final Value a) { return b(Double.isNaN(d(a))); }
    public static Value FInt(final Value n) { return v((double) ((IntValue) n).val); }
    public static Value FRat(final Value n, final Value m) {
        return v(((double) ((IntValue) n).val) / ((double) ((IntValue) m).val));
    }
    public static Value FDec(final Value s) { return v(Double.parseDouble(((StringValue) s).val.toString())); }
    public static Value FNextUp(final Value a) { return v(Math.nextUp(d(a))); }
    public static Value FNextDown(final Value a) { return v(Math.nextDown(d(a))); }
    public static Value F32(final Value a) { return v((double) ((float) d(a))); }
    /** floor(x) as a TLA+ integer, saturated to the 32-bit range. */
    public static Value FToInt(final Value a) {
        final double x = Math.floor(d(a));
        if (Double.isNaN(x)) { return IntValue.gen(Integer.MIN_VALUE); }
        if (x >= 2147483647.0) { return IntValue.gen(Integer.MAX_VALUE); }
        if (x <= -2147483648.0) { return IntValue.gen(Integer.MIN_VALUE); }
        return IntValue.gen((int) x);
    }
    private static long ord(final double x) {
        final long b = Double.doubleToLongBits(x);
        return b < 0 ? Long.MIN_VALUE - b : b;
    }
    /** distance in units in the last place, saturated at 2^31-1; NaN gives 2^31-1. */
    public static Value FUlps(final Value a, final Value c) {
        final double x = d(a), y = d(c);
        if (Double.isNaN(x) || Double.isNaN(y)) { return IntValue.gen(Integer.MAX_VALUE); }
        final long dd = Math.abs(ord(x) - ord(y));
        return IntValue.gen(dd > Integer.MAX_VALUE || dd < 0 ? Integer.MAX_VALUE : (int) dd);
    }
    /** |a-b| <= max(abs, rel*max(|a|,|b|)), or both the same infinity / both NaN-free equal. */
    public static Value FClose(final Value a, final Value c, final Value rel, final Value abs) {
        final double x = d(a), y = d(c);
        if (Double.isNaN(x) || Double.isNaN(y)) { return b(false); }
        if (x == y) { return b(true); }
        if (Double.isInfinite(x) || Double.isInfinite(y)) { return b(false); }
        final double tol = Math.max(d(abs), d(rel) * Math.max(Math.abs(x), Math.abs(y)));
        return b(Math.abs(x - y) <= tol);
    }
    /** Neumaier-compensated sum of a sequence of doubles. */
    public static Value FSum(final Value s) {
        final TupleValue t = (TupleValue) s.toTuple();
        double sum = 0.0, comp = 0.0;
        for (int i = 0; i < t.elems.length; i++) {
            final double x = d(t.elems[i]);
            final double tt = sum + x;
            if (Math.abs(sum) >= Math.abs(x)) { comp += (sum - tt) + x; } else { comp += (x - tt) + sum; }
            sum = tt;
        }
        return v(sum + comp);
    }
    /** identity that materialises a function / sequence value (TLC otherwise re-evaluates a function constructor's body on every application). */
    public static Value FSeq(final Value s) {
        final TupleValue t = (TupleValue) s.toTuple();
        if (t == null) { throw new RuntimeException("FSeq: not a sequence: " + s); }
        return t;
    }
    /** decimal rendering, for messages only. */
    public static Value FStr(final Value a) { return new StringValue(Double.toString(d(a))); }
}
